#!/venv/bin/python
"""Rewrite the block between the MATRIX markers of DESIGN.md with tools/seed_matrix.py's output."""
import re, subprocess
m = subprocess.check_output(["/verif/tools/seed_matrix.py"]).decode()
s = open("/verif/DESIGN.md").read()
blk = "<!-- MATRIX BEGIN -->\n" + m + "<!-- MATRIX END -->"
if "<!-- MATRIX BEGIN -->" in s:
    s = re.sub(r"<!-- MATRIX BEGIN -->.*?<!-- MATRIX END -->", lambda _: blk, s, flags=re.S)
else:
    s = s.rstrip("\n") + "\n\n**The matrix** (`caught by` = checks that exited 1 with a VIOLATION line on the scratch worktree carrying the change; the last\ncolumn is the /repo HEAD the change was applied to when it was last evaluated - the checks themselves were the current ones at\nthat time; `tools/reeval_seeds.sh <name>` repeats any row against today's HEAD):\n\n" + blk + "\n"
open("/verif/DESIGN.md", "w").write(s)
print("matrix rows:", m.count("\n") - 2)
