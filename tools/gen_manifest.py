#!/venv/bin/python
"""Regenerate /verif/MANIFEST.json from mc/registry.py and validate it."""
import json, os, sys
sys.path.insert(0, os.path.dirname(os.path.dirname(os.path.abspath(__file__))))
from mc import registry

checks = []
for pid in registry.ALL:
    c = registry.CHECKS.get(pid)
    if not c:
        continue
    checks.append({
        "property_id": pid,
        "quick_cmd": "./check %s quick" % pid,
        "thorough_cmd": "./check %s thorough" % pid,
        "evidence_file": "/verif/evidence/%s.json" % pid,
        "replay_cmd_template": "./check %s --replay {path}" % pid,
        "engine": "mc",
        "level_claimed": {"category": c.get("category", "model_checking"), "text": c["text"], "design_ref": c["design_ref"]},
        "level_note": c["note"],
        "technique": c["technique"],
    })
na = [{"property_id": p, "reason": registry.NA.get(p, registry.NOT_BUILT_REASON) if hasattr(registry, "NA") else registry.NOT_BUILT_REASON}
      for p in registry.ALL if p not in registry.CHECKS]
hooks_commits = getattr(registry, "HOOK_COMMITS", [])
m = {
    "version": 1,
    "setup_cmd": "/venv/bin/python -m compileall -q mc tools >/dev/null && /venv/bin/python -c \"import sys; sys.path.insert(0,'/repo/src'); import primaite\"",
    "hooks": {
        "guard": "PRIMAITE_VERIF",
        "enable": "no source hooks: every seam and monitor is a run-time monkey-patch installed by the checking process; checks import PrimAITE from $VERIF_REPO/src (default /repo/src)",
        "baseline_off_cmd": "cd /repo && /venv/bin/python -m pytest -ra -q -p no:cacheprovider --timeout=900 --continue-on-collection-errors",
        "source_commits": hooks_commits,
        "add_only": True,
    },
    "engines": [{
        "name": "mc", "path": "/verif/mc",
        "serves_properties": [c["property_id"] for c in checks],
        "kind_free_text": "hand-written explicit-state explorer for the real Python objects: replay-from-history BFS with canonical-state dedup, deviation-bounded enumeration, exhaustive products; fork-started 16-way worker pool",
    }],
    "checks": checks,
    "not_applicable": na,
    "notes": "Known findings / fixed defects: /verif/known_findings.json. Seeded breaking changes: /verif/seeded/. See DESIGN.md.",
}
try:
    import jsonschema
    jsonschema.validate(m, json.load(open("/root/.vp/MANIFEST.schema.json")))
except ImportError:
    pass
json.dump(m, open(os.path.join(os.path.dirname(os.path.dirname(os.path.abspath(__file__))), "MANIFEST.json"), "w"), indent=1)
print("MANIFEST.json: %d checks, %d not_applicable" % (len(checks), len(na)))
