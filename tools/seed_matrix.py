#!/venv/bin/python
"""Print the seeded-change detection matrix (markdown) from /verif/seeded/*/meta.json."""
import glob, json, os, re
rows = []
for mp in sorted(glob.glob("/verif/seeded/*/meta.json")):
    m = json.load(open(mp))
    notes = m.get("needs_to_manifest", "")
    first = ""
    for line in notes.split("\n"):
        line = line.strip(" #*-`")
        if len(line) > 25:
            first = line
            break
    conf = m.get("confirmed", {})
    ok = ("with_change=1" in conf.get("demo", "") and "without_change=0" in conf.get("demo", "")) and "missing=0" in conf.get("pinned_suite_with_change", "")
    caught = ", ".join(m.get("caught_by", [])) or "**missed**"
    if m.get("neutralised") and not m.get("caught_by"):
        caught = "n/a (neutralised on HEAD: demo passes with the change)"
    rows.append("| %s | %s | %s | %s |" % (m["name"], re.sub(r"\s+", " ", first)[:150].replace("|", "/"), "yes" if ok else "NOT CONFIRMED", caught))
print("| seed | what it is (author's first line) | confirmed by me (demo 0/1, pinned suite passes) | caught by |")
print("|---|---|---|---|")
print("\n".join(rows))
