#!/venv/bin/python
"""Print the seeded-change detection matrix (markdown) from /verif/seeded/*/meta.json."""
import glob, json, os, re
rows = []
for mp in sorted(glob.glob("/verif/seeded/*/meta.json")):
    m = json.load(open(mp))
    notes = m.get("needs_to_manifest", "")
    first = ""
    for line in notes.split("\n"):
        line = line.strip(" #*-`")
        if len(line) > 25:
            first = line
            break
    d = os.path.dirname(mp)
    rd = lambda f: open(os.path.join(d, f)).read() if os.path.exists(os.path.join(d, f)) else ""  # noqa: E731
    demo, bl = rd("demo.txt"), rd("baseline.txt")
    ok = "with_change=1" in demo and "without_change=0" in demo and "missing=0" in bl
    caught = ", ".join(m.get("caught_by", [])) or "**missed**"
    if m.get("neutralised") and not m.get("caught_by"):
        caught = "n/a (neutralised on HEAD: demo passes with the change)"
    head = (m.get("checked_against", "").split("HEAD ")[-1].split(" ")[0]) or "?"
    rows.append("| %s | %s | %s | %s | %s |" % (m["name"], re.sub(r"\s+", " ", first)[:110].replace("|", "/"), "yes" if ok else "NOT CONFIRMED", caught, head))
rows.sort(key=lambda r: (r.split("|")[1].strip().split("-")[0], int(r.split("|")[1].strip().split("-")[1])))
print("| seed | what it is (author's first line) | confirmed (demo 0/1, suite 526/526) | caught by | evaluated at /repo HEAD |")
print("|---|---|---|---|---|")
print("\n".join(rows))
