#!/bin/bash
# tools/reeval_all.sh [streams] : re-evaluate every stored seeded change against the current /repo HEAD, properties partitioned over
# <streams> parallel streams (default 3). Logs: /var/tmp/reeval_<k>.log
cd /verif
N=${1:-3}
props=(C05 C01 C02 C03 C19 C04 C11 C06 C09 C14 C17 C08 C13 C16 C18 C12 C10 C15 C20 C07)
for k in $(seq 0 $((N-1))); do
  (
    i=0
    for p in "${props[@]}"; do
      if [ $((i % N)) -eq $k ]; then
        for d in $(ls -d seeded/$p-* | sort -V); do ./tools/reeval_seeds.sh $(basename $d); done
      fi
      i=$((i+1))
    done
  ) > /var/tmp/reeval_$k.log 2>&1 &
done
wait
