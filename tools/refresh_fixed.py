#!/venv/bin/python
"""Regenerate the 'fixed' list of known_findings.json from tools/fixed_src.json with the current /repo commit hashes."""
import json, os, subprocess
root = os.path.dirname(os.path.dirname(os.path.abspath(__file__)))
src = json.load(open(os.path.join(root, "tools", "fixed_src.json")))
log = subprocess.check_output(["git", "-C", "/repo", "log", "--format=%h %s"]).decode().strip().split("\n")
out = []
for e in src:
    hs = [l.split(" ", 1)[0] for l in log if l.split(" ", 1)[1].startswith(e["commit_subject_prefix"])]
    assert len(hs) == 1, (e["commit_subject_prefix"], hs)
    out.append("fixed: property=%s %s %s" % (e["property"], hs[0], e["what"]))
kf = json.load(open(os.path.join(root, "known_findings.json")))
kf["fixed"] = out
json.dump(kf, open(os.path.join(root, "known_findings.json"), "w"), indent=1)
print("%d fixed entries" % len(out))
