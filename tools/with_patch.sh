#!/bin/bash
# tools/with_patch.sh <patch.diff> <cmd...>
# Applies the patch to a scratch git worktree of /repo (outside /repo and /verif), runs <cmd> with VERIF_REPO
# pointing at it, prints the command's exit code, removes the worktree.
set -u
patch="$(readlink -f "$1")"; shift
d="$(mktemp -d /var/tmp/primaite-mut-XXXXXX)"
rmdir "$d"
git -C /repo worktree add -q --detach "$d" HEAD || exit 3
trap 'git -C /repo worktree remove --force "$d" >/dev/null 2>&1; rm -rf "$d"' EXIT
if ! git -C "$d" apply "$patch"; then echo "PATCH-DOES-NOT-APPLY"; exit 3; fi
VERIF_REPO="$d" "$@"
rc=$?
echo "exit=$rc"
exit $rc
