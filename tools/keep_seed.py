#!/venv/bin/python
"""tools/keep_seed.py <seed dir> <property id> <name> [--tier quick] [--also C20,...] [--env KEY=VAL]

Runs the property's check (and optionally others) against a scratch worktree of the CURRENT /repo HEAD with the seeded
patch applied, and stores the seeded change under /verif/seeded/<name>/ (patch.diff, demo.py, notes.md, meta.json).
The demonstration (demo passes without / fails with the change) and the pinned-suite confirmation are done by
tools/seed_baselines.sh (sequentially) and read from seeded/<name>/{demo.txt,baseline.txt}.
Exit 0 = caught by at least one check."""
import argparse, json, os, shutil, subprocess, sys, tempfile, time

ap = argparse.ArgumentParser()
ap.add_argument("sd"); ap.add_argument("prop"); ap.add_argument("name")
ap.add_argument("--tier", default="quick"); ap.add_argument("--also", default="")
ap.add_argument("--env", action="append", default=[])
a = ap.parse_args()
sd = os.path.abspath(a.sd)
dst = os.path.join("/verif/seeded", a.name)
os.makedirs(dst, exist_ok=True)


def sh(cmd, cwd=None, env=None):
    p = subprocess.run(cmd, cwd=cwd, env=env, stdout=subprocess.PIPE, stderr=subprocess.STDOUT, text=True)
    return p.returncode, p.stdout


for f in ("patch.diff", "demo.py", "notes.md"):
    if os.path.exists(os.path.join(sd, f)) and os.path.abspath(sd) != os.path.abspath(dst):
        shutil.copy(os.path.join(sd, f), dst)
cur = tempfile.mkdtemp(prefix="primaite-seed-", dir="/var/tmp")
os.rmdir(cur)
sh(["git", "-C", "/repo", "worktree", "add", "-q", "--detach", cur, "HEAD"])
def demo_on(cur):
    """The author's demo with its hard-coded worktree path redirected to ``cur``."""
    src = open(os.path.join(sd, "demo.py")).read()
    import re
    m = re.search(r"/tmp/seed[23]?-C\d+", src)
    if m:
        src = src.replace(m.group(0), cur)
    fp = os.path.join(cur, "_demo_redirected.py")
    open(fp, "w").write(src)
    rc, _ = sh(["/venv/bin/python", "-W", "ignore", fp], cwd=cur)
    os.unlink(fp)
    return rc


try:
    head_demo_without = demo_on(cur)
    rc, out = sh(["git", "apply", os.path.join(sd, "patch.diff")], cwd=cur)
    if rc:
        rc, out = sh(["git", "apply", "-3", os.path.join(sd, "patch.diff")], cwd=cur)
    if rc:
        print("%s: PATCH DOES NOT APPLY TO CURRENT HEAD: %s" % (a.name, out[:300]))
        sys.exit(3)
    head_demo_with = demo_on(cur)
    results = {}
    for cid in [a.prop] + [x for x in a.also.split(",") if x]:
        env = dict(os.environ, VERIF_REPO=cur)
        for kv in a.env:
            k_, v_ = kv.split("=", 1)
            env[k_] = v_
        t0 = time.time()
        rc, out = sh(["./check", cid, a.tier], cwd="/verif", env=env)
        clauses = sorted({l.strip() for l in out.split("\n") if l.strip().startswith("clause=")})
        results[cid + ":" + a.tier] = {"exit": rc, "violation_lines": sum(1 for l in out.split("\n") if l.startswith("VIOLATION")),
                                      "clauses": clauses[:8], "wall_s": round(time.time() - t0),
                                      "cmd": "VERIF_REPO=<scratch worktree of /repo HEAD + patch.diff> %s./check %s %s" % (
                                          "".join(x + " " for x in a.env), cid, a.tier)}
finally:
    sh(["git", "-C", "/repo", "worktree", "remove", "--force", cur])
meta_p = os.path.join(dst, "meta.json")
meta = json.load(open(meta_p)) if os.path.exists(meta_p) else {}
notes = open(os.path.join(sd, "notes.md")).read() if os.path.exists(os.path.join(sd, "notes.md")) else ""
meta.update({"property": a.prop, "name": a.name, "needs_to_manifest": notes[:1800],
             "written_by": "independent sub-agent given only the property text and a scratch worktree",
             "checked_against": "scratch worktree of /repo HEAD %s + patch.diff" % subprocess.check_output(
                 ["git", "-C", "/repo", "log", "-1", "--format=%h"]).decode().strip()})
runs = meta.get("checks_run", {})
runs = {k: v for k, v in runs.items() if ":" in k}
if os.environ.get("KEEP_SEED_FRESH"):
    runs = {}  # a complete re-evaluation: only what was run now, against the HEAD named in checked_against
runs.update(results)
meta["checks_run"] = runs
meta["caught_by"] = sorted(k for k, v in runs.items() if v["exit"] == 1 and v["violation_lines"] > 0)
conf = {}
for fn, key in (("demo.txt", "demo"), ("baseline.txt", "pinned_suite_with_change")):
    fp = os.path.join(dst, fn)
    if os.path.exists(fp):
        conf[key] = open(fp).read().strip().split("\n")[0]
conf["demo_on_current_head"] = "demo_exit_without_change=%d demo_exit_with_change=%d" % (head_demo_without, head_demo_with)
meta["confirmed"] = conf or meta.get("confirmed", {})
if head_demo_with == 0:
    meta["neutralised"] = "on the current /repo HEAD the demonstration passes WITH the change: a later fix: commit removed what the seeded defect relied on"
json.dump(meta, open(meta_p, "w"), indent=1)
print("%s: confirmed=%s caught_by=%s" % (a.name, conf, meta["caught_by"]))
sys.exit(0 if meta["caught_by"] else 1)
