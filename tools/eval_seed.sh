#!/bin/bash
# tools/eval_seed.sh <worktree> <seed dir with patch.diff+demo.py> <check id> [skip-baseline] [tier]
# Confirms a seeded change (demo passes without / fails with; pinned suite still passes) and runs the check against it.
wt="$1"; sd="$(readlink -f "$2")"; id="$3"; skipb="${4:-}"; tier="${5:-quick}"
cd "$wt" || exit 3
git checkout -q -- . ; git clean -fdq src tests 2>/dev/null
/venv/bin/python -W ignore "$sd/demo.py" >/dev/null 2>&1; d0=$?
git apply "$sd/patch.diff" || { echo "PATCH-DOES-NOT-APPLY"; exit 3; }
/venv/bin/python -W ignore "$sd/demo.py" > "$sd/demo.with.log" 2>&1; d1=$?
echo "demo: without=$d0 (want 0) with=$d1 (want 1)"
if [ -z "$skipb" ]; then
  /venv/bin/python /verif/tools/baseline.py "$wt" 2>&1 | head -3
fi
cd /verif
VERIF_REPO="$wt" ./check "$id" "$tier" > "$sd/check.$id.$tier.log" 2>&1; rc=$?
echo "check $id $tier exit=$rc"; grep -c "^VIOLATION" "$sd/check.$id.$tier.log"; grep -m3 "clause=" "$sd/check.$id.$tier.log" | cut -c1-200
cd "$wt"; git checkout -q -- .
