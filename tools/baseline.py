#!/venv/bin/python
"""Run the repository's pinned test suite on a tree and compare with /root/.vp/BASELINE.json.

usage: tools/baseline.py [repo_dir]     exit 0 iff every stable_pass test passed.
"""
import json, os, subprocess, sys, tempfile, xml.etree.ElementTree as ET

repo = sys.argv[1] if len(sys.argv) > 1 else "/repo"
base = json.load(open("/root/.vp/BASELINE.json"))
fd, xmlf = tempfile.mkstemp(suffix=".xml", dir="/var/tmp")
os.close(fd)
env = dict(os.environ)
env.pop("PRIMAITE_VERIF", None)
env["PYTHONPATH"] = os.path.join(repo, "src")
# private HOME: PrimAITE writes session output under ~/primaite/<version>/sessions/<date>/<time>; two concurrent runs
# sharing it interfere. (VERIF_BASELINE_HOME=keep uses the real one.)
home = None
if os.environ.get("VERIF_BASELINE_HOME") != "keep":
    home = tempfile.mkdtemp(prefix="bl-home-", dir="/var/tmp")
    env["HOME"] = home
cmd = ["/venv/bin/python", "-m", "pytest", "-q", "-p", "no:cacheprovider", "--timeout=900",
       "--continue-on-collection-errors", "--junitxml=" + xmlf] + sys.argv[2:]
p = subprocess.run(cmd, cwd=repo, env=env, stdout=subprocess.PIPE, stderr=subprocess.STDOUT, text=True)
passed = set()
try:
    root = ET.parse(xmlf).getroot()
except Exception as e:  # pytest did not get as far as writing its report
    print("stable_pass=%d passed_now=? missing=? (no junit report: %s)" % (len(base["stable_pass"]), e))
    print(p.stdout[-3000:])
    sys.exit(2)
for tc in root.iter("testcase"):
    if not any(c.tag in ("failure", "error", "skipped") for c in tc):
        passed.add(tc.get("classname") + "::" + tc.get("name"))
os.unlink(xmlf)
if home:
    import shutil
    shutil.rmtree(home, ignore_errors=True)
missing = [t for t in base["stable_pass"] if t not in passed]
print("stable_pass=%d passed_now=%d missing=%d" % (len(base["stable_pass"]), len(passed), len(missing)))
for t in missing[:40]:
    print("  NOT PASSING:", t)
if missing:
    print(p.stdout[-3000:])
sys.exit(1 if missing else 0)
