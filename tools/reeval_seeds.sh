#!/bin/bash
# tools/reeval_seeds.sh <name> [<name> ...] : re-evaluate stored seeded changes (/verif/seeded/<name>) against the CURRENT /repo HEAD:
# the checks that were run for the seed before (its own property's check and any other check recorded in meta.json) are run again
# on a scratch worktree of HEAD + patch.diff; meta.json is rewritten from this run only.
cd /verif
for name in "$@"; do
  d=/verif/seeded/$name
  [ -f $d/patch.diff ] || continue
  prop=${name%%-*}
  also=$(/venv/bin/python -c "
import json,sys
m=json.load(open('$d/meta.json'))
ks=sorted({k.split(':')[0] for k in m.get('checks_run',{})} | {k.split(':')[0] for k in m.get('caught_by',[])})
print(','.join(k for k in ks if k!='$prop'))")
  KEEP_SEED_FRESH=1 ./tools/keep_seed.py $d $prop $name ${also:+--also $also} 2>&1 | tail -1 | sed -e 's/confirmed=.*caught_by/caught_by/'
done
