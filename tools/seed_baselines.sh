#!/bin/bash
# tools/seed_baselines.sh <ID> [<ID> ...] : sequentially, in the author's scratch worktree /tmp/seed-<ID>: run the demo
# without and with each seeded patch, and the pinned suite with it. Results: /verif/seeded/<ID>-<k>/{demo.txt,baseline.txt}.
# Second-wave seeds: SEEDW=seed2 SEEDOFF=3 (stored as <ID>-4..6).
# Sequential on purpose: concurrent pytest runs of PrimAITE interfere with each other (shared session directories).
W=${SEEDW:-seed}; OFF=${SEEDOFF:-0}
for id in "$@"; do
  for k in 1 2 3; do
    sd=/tmp/$W-$id/out/$k; wt=/tmp/$W-$id; dst=/verif/seeded/$id-$((k+OFF))
    [ -f $sd/patch.diff ] || continue
    mkdir -p $dst
    if grep -q "missing=0" $dst/baseline.txt 2>/dev/null && [ -f $dst/demo.txt ]; then continue; fi
    cd $wt && git checkout -q -- .
    /venv/bin/python -W ignore $sd/demo.py > /dev/null 2>&1; d0=$?
    git apply $sd/patch.diff || { echo "$id-$k PATCH-DOES-NOT-APPLY"; continue; }
    /venv/bin/python -W ignore $sd/demo.py > $dst/demo.with.log 2>&1; d1=$?
    echo "demo_exit_without_change=$d0 demo_exit_with_change=$d1" > $dst/demo.txt
    /venv/bin/python /verif/tools/baseline.py $wt 2>&1 | head -3 > $dst/baseline.txt
    git checkout -q -- .
    echo "$id-$((k+OFF)) $(cat $dst/demo.txt) $(head -1 $dst/baseline.txt)"
  done
done
