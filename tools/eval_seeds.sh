#!/bin/bash
# tools/eval_seeds.sh <tier> <ID> [<ID>...] : run each property's check against its three seeded changes (on scratch worktrees of HEAD)
tier="$1"; shift
for id in "$@"; do for k in 1 2 3; do
  [ -f /tmp/seed-$id/out/$k/patch.diff ] || continue
  /verif/tools/keep_seed.py /tmp/seed-$id/out/$k $id $id-$k --tier $tier 2>&1 | tail -1
done; done
