"""Seams that put PrimAITE's unseeded sources of nondeterminism under the harness' control.

All are run-time monkey-patches of module attributes (no change to /repo):
  uuid4            primaite.simulator.core / database_service / database_client / terminal   -> counter stream
  secrets.randbits MAC addresses, ICMP identifiers                                           -> counter stream (or scripted)
  secrets.token_urlsafe ICMP payloads                                                        -> counter stream
  datetime.now     frame timestamps, connection times, NTP                                   -> virtual clock

``reset(variant)`` restarts every stream; harness ``build()`` functions call it so that an execution is a function of
its event history only. Variants exist so that C03 can enumerate *different* answers of these sources.
"""
from __future__ import annotations

import base64
import datetime as _dt
import uuid as _uuid

_state = {"uuid": 0, "bits": 0, "tok": 0, "clock": 0, "installed": False,
          "uuid_base": 0, "bits_mode": "counter", "clock_mode": "ticking", "icmp_script": None}
_orig = {}


def _uuid4():
    _state["uuid"] += 1
    return _uuid.UUID(int=(_state["uuid_base"] << 64) + _state["uuid"])


def _randbits(k):
    if k == 16:
        _state["bits"] += 1
        n = _state["bits"]
        scr = _state["icmp_script"]
        if scr:
            return scr.pop(0) if len(scr) > 1 else scr[0]
        if _state["bits_mode"] == "low":
            return 1 + (n % 8)  # one digit
        if _state["bits_mode"] == "high":
            return 60000 + (n % 5000)  # five digits
        return 1000 + (n * 7919) % 9000  # four digits, never 0
    if k == 8:
        # six consecutive calls form one MAC address: bytes of a bijective image of the MAC index (all distinct)
        j = _state["mac"] = _state.get("mac", 0) + 1
        idx, pos = (j - 1) // 6, (j - 1) % 6
        mult = 0x9E3779B1 if _state["bits_mode"] != "high" else 0xC2B2AE3D
        val = ((idx + 1) * mult) % (1 << 48)
        return (val >> (8 * (5 - pos))) & 0xFF
    _state["bits"] += 1
    return (_state["bits"] * 40503 + 12345) % (1 << k)


def _token_urlsafe(nbytes=32):
    _state["tok"] += 1
    raw = (_state["tok"]).to_bytes(8, "big") * (nbytes // 8 + 1)
    return base64.urlsafe_b64encode(raw[:nbytes]).rstrip(b"=").decode("ascii")


class _Clock(_dt.datetime):
    @classmethod
    def now(cls, tz=None):
        if _state["clock_mode"] == "frozen0":
            return cls(2030, 1, 1, 0, 0, 0, 0)
        _state["clock"] += 1
        return cls(2030, 1, 1, 12, 0, 0, 100000) + _dt.timedelta(microseconds=_state["clock"] % 800000)


_DATETIME_MODULES = [
    "primaite.simulator.network.transmission.data_link_layer",
    "primaite.simulator.system.software",
    "primaite.simulator.system.services.terminal.terminal",
    "primaite.simulator.system.services.ntp.ntp_server",
]
_UUID_MODULES = [
    "primaite.simulator.core",
    "primaite.simulator.system.services.database.database_service",
    "primaite.simulator.system.applications.database_client",
    "primaite.simulator.system.services.terminal.terminal",
]


def install():
    """Idempotent. Must be called after PrimAITE's simulator modules have been imported."""
    import importlib
    import secrets

    if _state["installed"]:
        return
    _orig["randbits"] = secrets.randbits
    _orig["token_urlsafe"] = secrets.token_urlsafe
    secrets.randbits = _randbits
    secrets.token_urlsafe = _token_urlsafe
    for m in _UUID_MODULES:
        mod = importlib.import_module(m)
        _orig[(m, "uuid4")] = mod.uuid4
        mod.uuid4 = _uuid4
    for m in _DATETIME_MODULES:
        mod = importlib.import_module(m)
        _orig[(m, "datetime")] = mod.datetime
        mod.datetime = _Clock
    _state["installed"] = True


def uninstall():
    import importlib
    import secrets

    if not _state["installed"]:
        return
    secrets.randbits = _orig["randbits"]
    secrets.token_urlsafe = _orig["token_urlsafe"]
    for m in _UUID_MODULES:
        importlib.import_module(m).uuid4 = _orig[(m, "uuid4")]
    for m in _DATETIME_MODULES:
        importlib.import_module(m).datetime = _orig[(m, "datetime")]
    _state["installed"] = False


def reset(uuid_base: int = 0, bits_mode: str = "counter", clock_mode: str = "ticking", icmp_script=None):
    """Restart every stream (called by build())."""
    install()
    _state.update(uuid=0, bits=0, mac=0, tok=0, clock=0, uuid_base=uuid_base, bits_mode=bits_mode, clock_mode=clock_mode,
                  icmp_script=list(icmp_script) if icmp_script else None)
