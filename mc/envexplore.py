"""Exploration of the real PrimaiteGymEnv: BFS and deviation-bounded adapters with pluggable oracles.

An oracle is an object with optional methods
    after_build(s)                              -> [violation]
    after_reset(s, obs, info, old_game)         -> [violation]
    before_step(s, action)                      -> None      (may stash things on s.scratch)
    after_step(s, action, result)               -> [violation]   result = (obs, reward, terminated, truncated, info)
    on_exception(s, what, action, exc)          -> [violation]   what in {"step", "reset"}
The same exploration is used by C01, C02, C09, C11 with different oracles.
"""
from __future__ import annotations

import copy
import math
import random
import re
from typing import Dict, List, Optional

from . import common, engine, harness_env as HE
from .engine import violation

_UUID = re.compile(r"[0-9a-f]{8}-[0-9a-f]{4}-[0-9a-f]{4}-[0-9a-f]{4}-[0-9a-f]{12}")
_MAC = re.compile(r"(?:[0-9a-f]{2}:){5}[0-9a-f]{2}")


class EnvSut:
    pass


def action_name(s, a):
    am = s.env.agent.action_manager.action_map
    return am[a][0] if a in am else "?"


def normalise_ids(text: str) -> str:
    m = {}

    def rep(mo):
        k = mo.group(0)
        if k not in m:
            m[k] = "#%d" % len(m)
        return m[k]

    return _MAC.sub(rep, _UUID.sub(rep, text))


def env_canon(s):
    """Canonical state of an environment: simulator state (ids normalised), RNG states, agent memory, counters."""
    import numpy as np

    env = s.env
    g = env.game
    sim_state = normalise_ids(repr(HE.to_plain(g.simulation.describe_state())))
    from . import harness_sim as HS

    ids = HS.Ids()
    deep = tuple(HS.node_canon(n, ids) for n in g.simulation.network.nodes.values())
    links = tuple((round(l.current_load, 9)) for l in g.simulation.network.links.values())
    ag = []
    for name, a in g.agents.items():
        d = [name, len(a.history), round(float(a.reward_function.current_reward), 9), round(float(a.reward_function.total_reward), 9)]
        for attr in ("next_execution_timestep", "num_executions", "start_node", "current_kill_chain_stage", "next_kill_chain_stage",
                     "current_stage_progress", "starting_node", "current_host", "target_ip", "chosen_action"):
            if hasattr(a, attr):
                d.append((attr, repr(getattr(a, attr))))
        rng = getattr(a, "rng", None)
        if rng is not None:
            d.append(HE.sha(repr(rng.bit_generator.state)))
        d.append(HE.sha(repr(HE.to_plain(a.observation_manager.current_observation))))
        for comp, w in a.reward_function.reward_components:
            d.append((type(comp).__name__, repr(getattr(comp, "reward", None))))
        ag.append(tuple(d))
    rngs = (HE.sha(repr(random.getstate())), HE.sha(repr(np.random.get_state())))
    return (HE.sha(sim_state), HE.sha(normalise_ids(repr(deep))), links, tuple(ag), rngs, g.step_counter, env.episode_counter)


class EnvAdapter(engine.DevAdapter):
    """Events: ("a", i) blue action i; ("reset", seed_or_None)."""

    fork_expand = True
    expand_chunks = 16
    dev_chunks = 8

    def __init__(self, name: str, cfg: Dict, oracles: List, alphabet: Optional[List[int]] = None, resets=((None,), (5,)),
                 init_reset_seed: Optional[int] = 3, default_action: int = 0, dev_alphabet: Optional[List[int]] = None,
                 dev_resets: bool = True, extra_params: Optional[Dict] = None):
        self.name = name
        self.cfg = cfg
        self.oracles = oracles
        self.alphabet = alphabet
        self.resets = [tuple(r) for r in resets]
        self.init_reset_seed = init_reset_seed
        self.default_action = default_action
        self.dev_alphabet = dev_alphabet
        self.dev_resets = dev_resets
        self.extra = extra_params or {}

    def params(self):
        p = {"scenario": self.name, "init_reset_seed": self.init_reset_seed}
        p.update(self.extra)
        return p

    # -------------------------------------------------------------------------------------------
    def build(self):
        from . import seams

        Env = HE.import_env()
        seams.reset()
        s = EnvSut()
        cfg = self.cfg if isinstance(self.cfg, str) else copy.deepcopy(self.cfg)
        s.env = Env(cfg)
        s.steps = 0
        s.scratch = {}
        s.build_violations = []
        s.n_actions = len(s.env.agent.action_manager.action_map)
        s.max_len = s.env.game.options.max_episode_length
        s.agent_names = list(s.env.game.agents)
        for o in self.oracles:
            if hasattr(o, "after_build"):
                s.build_violations += o.after_build(s)
        if self.init_reset_seed is not None:
            _, v = self.apply(s, ("reset", self.init_reset_seed))
            s.build_violations += v
        return s

    def check_initial(self, s):
        return list(s.build_violations)

    def menu(self, s):
        acts = self.alphabet if self.alphabet is not None else list(range(s.n_actions))
        return [("a", i) for i in acts] + [("reset",) + r for r in self.resets]

    def default_event(self, s, t):
        return ("a", self.default_action)

    dev_until = None  # deviations only in slots < dev_until (the execution still runs to the horizon)

    def alternatives(self, s, t, left):
        if self.dev_until is not None and t >= self.dev_until:
            return []
        acts = self.dev_alphabet if self.dev_alphabet is not None else (
            self.alphabet if self.alphabet is not None else list(range(s.n_actions)))
        ev = [("a", i) for i in acts if i != self.default_action]
        if self.dev_resets:
            ev += [("reset",) + r for r in self.resets]
        return ev

    def label(self, ev):
        return ev[0]

    # -------------------------------------------------------------------------------------------
    def apply(self, s, ev):
        viols = []
        env = s.env
        if ev[0] == "reset":
            seed = ev[1] if len(ev) > 1 else None
            old_game = env.game
            old_ep = env.episode_counter
            try:
                obs, info = env.reset(seed=seed) if seed is not None else env.reset()
            except Exception as e:  # noqa
                for o in self.oracles:
                    if hasattr(o, "on_exception"):
                        viols += o.on_exception(s, "reset", None, e)
                s.dead = True
                return "raised-" + type(e).__name__, viols or [violation("harness_cannot_continue", "reset", repr(e))]
            s.steps = 0
            s.agent_names = list(env.game.agents)  # episode-scheduled scenarios may change the agent set
            s.max_len = env.game.options.max_episode_length
            s.scratch = {"old_episode": old_ep}
            for o in self.oracles:
                if hasattr(o, "after_reset"):
                    viols += o.after_reset(s, obs, info, old_game)
            return "reset", viols
        a = ev[1]
        for o in self.oracles:
            if hasattr(o, "before_step"):
                o.before_step(s, a)
        try:
            result = env.step(a)
        except Exception as e:  # noqa
            for o in self.oracles:
                if hasattr(o, "on_exception"):
                    viols += o.on_exception(s, "step", a, e)
            # the environment is in an undefined state now: never explore beneath it
            return "raised-" + type(e).__name__, viols or [violation(
                "not_this_property:step_raised", "%s:%s" % (action_name(s, a), type(e).__name__), repr(e)[:300])]
        s.steps += 1
        for o in self.oracles:
            if hasattr(o, "after_step"):
                viols += o.after_step(s, a, result)
        resp = env.agent.history[-1].response
        outcome = [action_name(s, a), resp.status, bool(result[3])]
        return outcome, viols

    def canon(self, s):
        return env_canon(s)


NOT_MINE = "not_this_property:"


def drop_foreign(viols):
    """Violations whose clause starts with NOT_MINE mark transitions that another property's check reports
    (e.g. env.step raised: C01). They prune the search but are not reported by this check."""
    return [v for v in viols if not v["clause"].startswith(NOT_MINE)]


# ----------------------------------------------------------------------------------------------------------
# C01 oracle
# ----------------------------------------------------------------------------------------------------------
class StepContractOracle:
    def on_exception(self, s, what, a, e):
        if what == "step":
            return [violation("step_never_raises", "%s:%s" % (action_name(s, a), type(e).__name__),
                              "env.step(%s = %s %s) raised %s: %s" % (a, action_name(s, a), _opts(s, a), type(e).__name__, str(e)[:300]))]
        return [violation("reset_never_raises", "reset:%s" % type(e).__name__, "env.reset raised %r" % (e,))]

    def before_step(self, s, a):
        g = s.env.game
        s.scratch["pre_counter"] = g.step_counter
        s.scratch["pre_hist"] = {n: len(ag.history) for n, ag in g.agents.items()}
        s.scratch["pre_total"] = {n: ag.reward_function.total_reward for n, ag in g.agents.items()}

    def after_step(self, s, a, result):
        from primaite.interface.request import RequestResponse

        v = []
        obs, reward, terminated, truncated, info = result
        g = s.env.game
        sig = action_name(s, a)
        if obs is None:
            v.append(violation("returns_observation", sig, "observation is None"))
        try:
            fr = float(reward)
            if not math.isfinite(fr):
                v.append(violation("finite_reward", sig, "reward %r" % (reward,)))
        except Exception:  # noqa
            v.append(violation("finite_reward", sig, "reward %r is not numeric" % (reward,)))
        if terminated is not False:
            v.append(violation("terminated_false", sig, "terminated=%r" % (terminated,)))
        want_trunc = s.steps >= s.max_len
        if bool(truncated) != want_trunc:
            v.append(violation("truncated_iff_max_steps", "steps-vs-max",
                               "after %d steps of max %d truncated=%r" % (s.steps, s.max_len, truncated)))
        if g.step_counter != s.scratch["pre_counter"] + 1:
            v.append(violation("one_tick_per_step", sig, "step_counter %s -> %s" % (s.scratch["pre_counter"], g.step_counter)))
        if g.step_counter != s.steps:
            v.append(violation("one_tick_per_step", "counter-vs-steps", "step_counter=%s after %d steps in the episode" % (g.step_counter, s.steps)))
        for n, ag in g.agents.items():
            if len(ag.history) != s.scratch["pre_hist"][n] + 1 or len(ag.history) != s.steps:
                v.append(violation("one_history_item_per_agent_per_step", "agent-history-length",
                                   "agent %s history %s -> %s after step %d" % (n, s.scratch["pre_hist"][n], len(ag.history), s.steps)))
                continue
            h = ag.history[-1]
            if h.timestep != s.steps - 1:
                v.append(violation("one_history_item_per_agent_per_step", "history-timestep",
                                   "agent %s last item timestep %s at step %d" % (n, h.timestep, s.steps)))
            if not isinstance(h.response, RequestResponse) or h.response.status not in ("success", "failure", "unreachable", "pending"):
                v.append(violation("one_response_per_agent_per_step", "response-type", "agent %s response %r" % (n, h.response)))
        ia = info.get("agent_actions") if isinstance(info, dict) else None
        if ia is None or sorted(ia) != sorted(g.agents):
            v.append(violation("info_lists_every_agent", "info", "info agent_actions keys %r vs agents %r" % (
                sorted(ia) if ia else ia, sorted(g.agents))))
        return v

    def after_reset(self, s, obs, info, old_game):
        v = []
        env = s.env
        g = env.game
        if g is old_game:
            v.append(violation("reset_new_episode", "same-game-object", "reset kept the old game object"))
        if g.step_counter != 0:
            v.append(violation("reset_new_episode", "tick-not-zero", "step_counter=%s after reset" % g.step_counter))
        if env.episode_counter != s.scratch["old_episode"] + 1:
            v.append(violation("reset_new_episode", "episode-counter", "episode_counter %s -> %s" % (s.scratch["old_episode"], env.episode_counter)))
        for n, ag in g.agents.items():
            if len(ag.history) != 0:
                v.append(violation("reset_new_episode", "history-not-empty", "agent %s has %d history items after reset" % (n, len(ag.history))))
            if ag.reward_function.total_reward != 0 or ag.reward_function.current_reward != 0:
                v.append(violation("reset_new_episode", "reward-not-zero", "agent %s total=%r current=%r after reset" % (
                    n, ag.reward_function.total_reward, ag.reward_function.current_reward)))
        if obs is None:
            v.append(violation("returns_observation", "reset", "reset returned None observation"))
        return v


def _opts(s, a):
    am = s.env.agent.action_manager.action_map
    return dict(am[a][1]) if a in am else {}


# ----------------------------------------------------------------------------------------------------------
# C02 oracle
# ----------------------------------------------------------------------------------------------------------
class SpaceOracle:
    def after_build(self, s):
        s.space0 = repr(s.env.observation_space)
        s.aspace0 = repr(s.env.action_space)
        return []

    def _check(self, s, obs, sig):
        import gymnasium
        import numpy as np

        v = []
        env = s.env
        sp = env.observation_space
        if not sp.contains(obs):
            v.append(violation("observation_in_space", sig + ":" + _first_bad_leaf(env, obs)[0],
                               "observation not in observation_space: %s" % (_first_bad_leaf(env, obs)[1],)))
        if env.agent.flatten_obs:
            want = gymnasium.spaces.flatten_space(env.agent.observation_manager.space)
            if not isinstance(obs, np.ndarray) or obs.shape != want.shape:
                v.append(violation("flattened_shape", sig, "flattened obs shape %r vs %r" % (getattr(obs, "shape", None), want.shape)))
        return v

    def after_reset(self, s, obs, info, old_game):
        v = self._check(s, obs, "reset")
        if repr(s.env.observation_space) != s.space0:
            v.append(violation("space_constant_across_episodes", "observation_space", "observation space changed after reset"))
        if repr(s.env.action_space) != s.aspace0:
            v.append(violation("space_constant_across_episodes", "action_space", "action space changed after reset"))
        return v

    def after_step(self, s, a, result):
        return self._check(s, result[0], "step")


def _first_bad_leaf(env, obs):
    """Locate the first leaf of the (nested) observation that is outside its sub-space."""
    import gymnasium

    space = env.agent.observation_manager.space
    o = env.agent.observation_manager.current_observation

    def walk(sp, ob, path):
        if isinstance(sp, gymnasium.spaces.Dict):
            if not isinstance(ob, dict):
                return (path, "expected dict at %s got %r" % (path, type(ob)))
            for k, sub in sp.spaces.items():
                if k not in ob:
                    return (path + "/" + str(k), "missing key %s" % (path + "/" + str(k)))
                r = walk(sub, ob[k], path + "/" + str(k))
                if r:
                    return r
            extra = set(ob) - set(sp.spaces)
            if extra:
                return (path, "extra keys %r at %s" % (sorted(map(str, extra)), path))
            return None
        if not sp.contains(ob):
            leaf = re.sub(r"\d+", "N", path)
            return (leaf, "leaf %s = %r not in %r" % (path, ob, sp))
        return None

    r = walk(space, o, "")
    return r or ("flattened", "nested observation is in its space but the returned (flattened) one is not")
