"""Evidence files (/verif/evidence/<id>.json), schema-checked before they are written."""
import json
import os
import time

from . import common

SCHEMA = "/root/.vp/EVIDENCE.schema.json"
_FALLBACK_SCHEMA = os.path.join(common.VERIF_DIR, "tools", "EVIDENCE.schema.json")


def write(prop: str, tier: str, level: str, coverage: dict, assumptions, wall_s: float, violations: int):
    doc = {
        "property_id": prop,
        "tier": tier,
        "seed": common.SEED,
        "level": level,
        "coverage": coverage,
        "assumptions": list(assumptions),
        "wall_s": round(wall_s, 2),
        "violations": int(violations),
        "repo": common.REPO,
        "written_at": time.strftime("%Y-%m-%dT%H:%M:%SZ", time.gmtime()),
    }
    try:
        import jsonschema

        sp = SCHEMA if os.path.exists(SCHEMA) else _FALLBACK_SCHEMA
        jsonschema.validate(doc, json.load(open(sp)))
    except ImportError:
        pass
    os.makedirs(os.path.join(common.VERIF_DIR, "evidence"), exist_ok=True)
    path = os.path.join(common.VERIF_DIR, "evidence", prop + ".json")
    tmp = path + ".tmp"
    with open(tmp, "w") as f:
        json.dump(doc, f, indent=1, default=str)
    os.replace(tmp, path)
    return path
