"""Explicit-state exploration of real PrimAITE objects.

Three exploration modes share this module (DESIGN.md §3.1):

* ``bfs``        level-synchronous breadth-first search with canonical-state de-duplication; a state is
                 represented by the shortest event history that reaches it and is re-created by building
                 fresh objects and replaying (live simulation objects cannot be copied soundly);
* ``deviations`` all executions of a horizon with at most k departures from a default choice;
* ``product``    complete enumeration of an explicit finite product.

All three run on a fork-started worker pool created after PrimAITE has been imported.
"""
from __future__ import annotations

import hashlib
import itertools
import multiprocessing as mp
import os
import random
import sys
import time
import traceback
from typing import Any, Callable, Dict, Iterable, List, Optional, Sequence, Tuple

from . import common


# --------------------------------------------------------------------------------------------------
# Violations
# --------------------------------------------------------------------------------------------------
def violation(clause: str, signature: str, detail: str, **extra) -> Dict:
    """One oracle failure.

    ``clause``     which part of the property's oracle failed;
    ``signature``  the specific failing thing (call site / input shape), coarser than a history so the same
                   defect reached along many histories is one finding, finer than the property so a different
                   defect of the same property is still reported;
    ``detail``     expected vs observed, free text.
    """
    d = {"clause": clause, "signature": signature, "detail": detail}
    d.update(extra)
    return d


class HarnessError(Exception):
    """The harness (not the code under check) misbehaved: never a verdict about the property."""


# --------------------------------------------------------------------------------------------------
# Adapter protocol
# --------------------------------------------------------------------------------------------------
class Adapter:
    """System-under-test adapter for ``bfs``.

    Events and outcomes must be JSON-serialisable (lists/tuples/str/int/bool/None).
    """

    name = "adapter"

    def params(self) -> Dict:
        """Harness parameters written into replay files."""
        return {}

    def build(self) -> Any:
        raise NotImplementedError

    def menu(self, sut) -> List:
        raise NotImplementedError

    def apply(self, sut, event) -> Tuple[Any, List[Dict]]:
        """Apply one event to the real objects. Returns (outcome, violations found on this transition)."""
        raise NotImplementedError

    def canon(self, sut) -> Any:
        raise NotImplementedError

    def check_initial(self, sut) -> List[Dict]:
        return []

    def label(self, event) -> str:
        """Histogram key of an event (its kind)."""
        return str(event[0]) if isinstance(event, (list, tuple)) and event else str(event)


_ADAPTERS: Dict[str, Adapter] = {}


def digest(obj) -> str:
    return hashlib.sha1(repr(obj).encode()).hexdigest()[:20]


def fork_each(items, fn):
    """Run ``fn(item)`` for every item, each in a forked child of the current process (a 7 ms snapshot of whatever
    live objects the caller has built), and yield (item, result). Children never return: they write the pickled
    result to a pipe and ``_exit``. An exception in the child is re-raised here as HarnessError."""
    import pickle

    for item in items:
        r, w = os.pipe()
        pid = os.fork()
        if pid == 0:
            try:
                os.close(r)
                try:
                    data = pickle.dumps(("ok", fn(item)))
                except BaseException as e:  # noqa
                    data = pickle.dumps(("err", "".join(traceback.format_exception(e))))
                with os.fdopen(w, "wb") as f:
                    f.write(data)
            finally:
                os._exit(0)
        os.close(w)
        with os.fdopen(r, "rb") as f:
            data = f.read()
        os.waitpid(pid, 0)
        if not data:
            raise HarnessError("forked child died without a result on item %r" % (item,))
        status, res = pickle.loads(data)
        if status != "ok":
            raise HarnessError("forked child failed on item %r:\n%s" % (item, res))
        yield item, res


def _expand(task):
    """Worker: expand one state (given by its history) under adapter ``key``."""
    key, history = task[0], task[1]
    ci, nchunks = (task[2], task[3]) if len(task) > 2 else (0, 1)
    ad = _ADAPTERS[key]
    out = []
    try:
        sut = ad.build()
        for ev in history:
            ad.apply(sut, ev)
        base = digest(ad.canon(sut))
        menu = list(ad.menu(sut))[ci::nchunks]
        if getattr(ad, "fork_expand", False):
            def one(ev):
                outcome, viols = ad.apply(sut, ev)
                return outcome, digest(ad.canon(sut)), viols

            for ev, (outcome, dg, viols) in fork_each(menu, one):
                out.append((ev, outcome, dg, viols))
            return ("ok", history, base, out)
        first = True
        for ev in menu:
            if not first:
                sut = ad.build()
                for e in history:
                    ad.apply(sut, e)
                if digest(ad.canon(sut)) != base:
                    raise HarnessError("non-deterministic replay of %r" % (history,))
            first = False
            outcome, viols = ad.apply(sut, ev)
            out.append((ev, outcome, digest(ad.canon(sut)), viols))
        return ("ok", history, base, out)
    except HarnessError as e:
        return ("harness", history, None, "".join(traceback.format_exception(e)))
    except BaseException as e:  # noqa - an escaping exception in build/replay is a harness fault
        return ("harness", history, None, "".join(traceback.format_exception(e)))


def _replay_digest(task):
    key, history = task
    ad = _ADAPTERS[key]
    sut = ad.build()
    outs = []
    for ev in history:
        o, _ = ad.apply(sut, ev)
        outs.append(o)
    return digest((ad.canon(sut), outs))


_POOL = None


def pool():
    """Fork-started pool; must be called after every adapter has been registered and PrimAITE imported."""
    global _POOL
    if _POOL is None:
        import gc

        gc.collect()
        gc.freeze()
        ctx = mp.get_context("fork")
        _POOL = ctx.Pool(common.WORKERS, maxtasksperchild=None)
    return _POOL


def close_pool():
    global _POOL
    if _POOL is not None:
        _POOL.terminate()
        _POOL.join()
        _POOL = None


class BfsResult:
    def __init__(self):
        self.states = 0
        self.transitions = 0
        self.max_depth_completed = 0
        self.frontier_emptied = False
        self.violations: List[Dict] = []
        self.hist: Dict[str, int] = {}
        self.outcomes: set = set()
        self.samples: List = []
        self.pruned = 0
        self.capped: Optional[str] = None
        self.level_sizes: List[int] = []
        self.merged = 0
        self.determinism_checked = 0


def bfs(
    ad: Adapter,
    depth: int,
    state_budget: int = 10**9,
    time_budget: float = 10**9,
    is_known: Callable[[Dict], bool] = lambda v: False,
    max_violations: int = 200,
    key: Optional[str] = None,
) -> BfsResult:
    """Level-synchronous BFS over ``ad`` to ``depth`` events, complete below any cap that is reported."""
    key = key or ad.name
    if _POOL is not None and key not in _ADAPTERS:
        # adapters must exist in the workers: restart the pool
        close_pool()
    _ADAPTERS[key] = ad
    t0 = time.time()
    res = BfsResult()
    rng = random.Random(common.SEED)

    sut = ad.build()
    init_v = ad.check_initial(sut)
    for v in init_v:
        v.update(history=[], event=None, adapter=key, params=ad.params())
    res.violations.extend(init_v)
    seen = {digest(ad.canon(sut))}
    res.states = 1
    frontier: List[List] = [[]]
    p = pool()
    sample_hist: List[List] = []
    for level in range(depth):
        if not frontier:
            res.frontier_emptied = True
            break
        if time.time() - t0 > time_budget:
            res.capped = "time budget %.0fs reached before level %d" % (time_budget, level + 1)
            break
        if res.states >= state_budget:
            res.capped = "state budget %d reached before level %d" % (state_budget, level + 1)
            break
        rng.shuffle(frontier)
        nxt: List[List] = []
        stop = False
        nch = max(1, int(getattr(ad, "expand_chunks", 1)))
        if len(frontier) >= 4 * common.WORKERS:
            nch = 1
        tasks = [(key, h, ci, nch) for h in frontier for ci in range(nch)]
        for r in p.imap_unordered(_expand, tasks, chunksize=1):
            status, history, base, out = r
            if status != "ok":
                raise HarnessError("worker failed on history %r:\n%s" % (history, out))
            for ev, outcome, dg, viols in out:
                res.transitions += 1
                lab = ad.label(ev)
                res.hist[lab] = res.hist.get(lab, 0) + 1
                res.outcomes.add(digest((lab, outcome)))
                unknown = []
                for v in viols:
                    v.update(history=list(history), event=ev, adapter=key, params=ad.params())
                    if not is_known(v):
                        unknown.append(v)
                    res.violations.append(v)
                if viols:
                    # do not search beneath a violating transition (known or not): everything else is explored
                    res.pruned += 1
                    continue
                if dg in seen:
                    res.merged += 1
                    continue
                seen.add(dg)
                res.states += 1
                nxt.append(list(history) + [ev])
                if len(res.samples) < 3 and len(history) + 1 >= min(depth, 3):
                    res.samples.append({"history": list(history) + [ev], "outcome": outcome})
            if len([v for v in res.violations if not is_known(v)]) >= max_violations:
                stop = True
                break
        res.level_sizes.append(len(nxt))
        if stop:
            res.capped = "stopped after %d violations" % max_violations
            break
        res.max_depth_completed = level + 1
        if nxt:
            sample_hist = nxt
        frontier = nxt
    else:
        if not frontier:
            res.frontier_emptied = True
    # determinism self-check: deepest histories are replayed in two different workers
    if sample_hist:
        picks = sample_hist[:: max(1, len(sample_hist) // 8)][:8]
        a = p.map(_replay_digest, [(key, h) for h in picks], chunksize=1)
        b = p.map(_replay_digest, [(key, h) for h in reversed(picks)], chunksize=1)
        if a != list(reversed(b)):
            raise HarnessError("determinism self-check failed for adapter %s" % key)
        res.determinism_checked = len(picks)
    if not res.samples and sample_hist:
        res.samples.append({"history": sample_hist[0]})
    return res


# --------------------------------------------------------------------------------------------------
# Product enumeration
# --------------------------------------------------------------------------------------------------
_FUNCS: Dict[str, Callable] = {}


def _call(task):
    key, item = task
    try:
        return ("ok", item, _FUNCS[key](item))
    except BaseException as e:  # noqa
        return ("harness", item, "".join(traceback.format_exception(e)))


def pmap(key: str, func: Callable, items: Sequence, chunksize: int = 1) -> Iterable:
    """Run ``func`` over every item on the pool (complete enumeration; order of results unspecified).

    ``func(item)`` returns anything picklable. A raised exception is a harness fault.
    """
    if _POOL is not None and key not in _FUNCS:
        close_pool()
    _FUNCS[key] = func
    p = pool()
    for status, item, r in p.imap_unordered(_call, [(key, it) for it in items], chunksize=chunksize):
        if status != "ok":
            raise HarnessError("worker failed on item %r:\n%s" % (item, r))
        yield item, r


def deviation_scripts(horizon: int, alphabet_size_at: Callable[[int], int], k: int):
    """All scripts over ``horizon`` slots with at most ``k`` non-default choices.

    A script is a tuple of (slot, choice) pairs, choice >= 1 (0 is the default). ``alphabet_size_at(slot)``
    is the number of choices (including the default) at that slot.
    """
    yield ()
    for n in range(1, k + 1):
        for slots in itertools.combinations(range(horizon), n):
            ranges = [range(1, alphabet_size_at(s)) for s in slots]
            for choice in itertools.product(*ranges):
                yield tuple(zip(slots, choice))


# --------------------------------------------------------------------------------------------------
# Deviation-bounded enumeration
# --------------------------------------------------------------------------------------------------
class DevAdapter(Adapter):
    """Adapter for ``deviations``: additionally supplies the default event and the alternatives at a slot."""

    def default_event(self, sut, t):
        raise NotImplementedError

    def alternatives(self, sut, t, left):
        """Alternative events at slot t when ``left`` deviations may still be spent (left >= 1)."""
        raise NotImplementedError


def _annot(viols, hist, ev, ad, key):
    for v in viols:
        v.update(history=list(hist), event=ev, adapter=key, params=ad.params())
    return viols


def _dev_explore(ad, key, sut, hist, t, left, H, st):
    viols = []
    while t < H:
        if left > 0:
            alts = list(ad.alternatives(sut, t, left))
            if st.get("first_only"):
                alts = alts[st["chunk"][0]::st["chunk"][1]]
            st["choice_points"] += 1

            def child(ev, hist=hist, t=t):
                cst = {"exec": 0, "trans": 1, "choice_points": 0, "outs": set(), "hist": {}}
                o, v = ad.apply(sut, ev)
                lab = ad.label(ev)
                cst["hist"][lab] = 1
                cst["outs"].add(digest((lab, o)))
                vv = _annot(v, hist, ev, ad, key)
                if not v:
                    vv = vv + _dev_explore(ad, key, sut, hist + [ev], t + 1, left - 1, H, cst)
                else:
                    cst["exec"] += 1
                return vv, cst

            for ev, (vv, cst) in fork_each(alts, child):
                viols += vv
                st["exec"] += cst["exec"]
                st["trans"] += cst["trans"]
                st["choice_points"] += cst["choice_points"]
                st["outs"] |= cst["outs"]
                for k_, n_ in cst["hist"].items():
                    st["hist"][k_] = st["hist"].get(k_, 0) + n_
            if st.get("first_only"):
                return viols
        ev = ad.default_event(sut, t)
        o, v = ad.apply(sut, ev)
        st["trans"] += 1
        lab = ad.label(ev)
        st["hist"][lab] = st["hist"].get(lab, 0) + 1
        st["outs"].add(digest((lab, o)))
        if v:
            st["exec"] += 1
            return viols + _annot(v, hist, ev, ad, key)
        hist = hist + [ev]
        t += 1
    st["exec"] += 1
    st["last_hist"] = hist
    return viols


def _dev_task(task):
    key, t0, H, k = task[:4]
    chunk = task[4] if len(task) > 4 else (0, 1)
    ad = _ADAPTERS[key]
    try:
        sut = ad.build()
        st = {"exec": 0, "trans": 0, "choice_points": 0, "outs": set(), "hist": {}, "chunk": chunk}
        hist = []
        if t0 >= H:
            # the pure default execution, checked along its whole length
            viols = _dev_explore(ad, key, sut, [], 0, 0, H, st)
            return ("ok", t0, viols, st)
        # default prefix (its violations are reported by the pure-default task t0 == H)
        for t in range(t0):
            ev = ad.default_event(sut, t)
            o, v = ad.apply(sut, ev)
            if v:
                return ("ok", t0, [], st)
            hist.append(ev)
        st["first_only"] = True
        viols = _dev_explore(ad, key, sut, hist, t0, k, H, st)
        st.pop("first_only", None)
        return ("ok", t0, viols, st)
    except BaseException as e:  # noqa
        return ("harness", t0, "".join(traceback.format_exception(e)), None)


class DevResult:
    def __init__(self):
        self.executions = 0
        self.transitions = 0
        self.choice_points = 0
        self.violations = []
        self.hist = {}
        self.outcomes = set()
        self.samples = []
        self.k = 0
        self.horizon = 0


def deviations(ad: DevAdapter, horizon: int, k: int, key: Optional[str] = None) -> DevResult:
    """All executions of ``horizon`` slots with at most ``k`` deviations from the default event (k >= 0).

    Work is split by the slot of the first deviation; inside a worker every alternative is explored in a forked
    snapshot of the live objects, so a prefix is executed once, not once per alternative.
    """
    key = key or ad.name
    if _POOL is not None and key not in _ADAPTERS:
        close_pool()
    _ADAPTERS[key] = ad
    if _POOL is None:
        ad.build()  # warm-up in the parent: lazily initialised module state is inherited by every worker
    res = DevResult()
    res.k, res.horizon = k, horizon
    tasks = [(key, horizon, horizon, 0)]
    if k > 0:
        nch = max(1, int(getattr(ad, "dev_chunks", 1)))
        tasks += [(key, t0, horizon, k, (ci, nch)) for t0 in range(horizon) for ci in range(nch)]
    seen = set()
    for status, t0, viols, st in pool().imap_unordered(_dev_task, tasks, chunksize=1):
        if status != "ok":
            raise HarnessError("deviation worker failed (first deviation at slot %s):\n%s" % (t0, viols))
        res.executions += st["exec"]
        res.transitions += st["trans"]
        res.choice_points += st["choice_points"]
        res.outcomes |= st["outs"]
        for k_, n_ in st["hist"].items():
            res.hist[k_] = res.hist.get(k_, 0) + n_
        if "last_hist" in st and len(res.samples) < 2:
            res.samples.append({"history": st["last_hist"]})
        for v in viols:
            kx = digest((v["clause"], v["signature"], v["history"], v["event"]))
            if kx not in seen:
                seen.add(kx)
                res.violations.append(v)
    return res
