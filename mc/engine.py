"""Explicit-state exploration of real PrimAITE objects.

Three exploration modes share this module (DESIGN.md §3.1):

* ``bfs``        level-synchronous breadth-first search with canonical-state de-duplication; a state is
                 represented by the shortest event history that reaches it and is re-created by building
                 fresh objects and replaying (live simulation objects cannot be copied soundly);
* ``deviations`` all executions of a horizon with at most k departures from a default choice;
* ``product``    complete enumeration of an explicit finite product.

All three run on a fork-started worker pool created after PrimAITE has been imported.
"""
from __future__ import annotations

import hashlib
import itertools
import multiprocessing as mp
import os
import random
import sys
import time
import traceback
from typing import Any, Callable, Dict, Iterable, List, Optional, Sequence, Tuple

from . import common


# --------------------------------------------------------------------------------------------------
# Violations
# --------------------------------------------------------------------------------------------------
def violation(clause: str, signature: str, detail: str, **extra) -> Dict:
    """One oracle failure.

    ``clause``     which part of the property's oracle failed;
    ``signature``  the specific failing thing (call site / input shape), coarser than a history so the same
                   defect reached along many histories is one finding, finer than the property so a different
                   defect of the same property is still reported;
    ``detail``     expected vs observed, free text.
    """
    d = {"clause": clause, "signature": signature, "detail": detail}
    d.update(extra)
    return d


class HarnessError(Exception):
    """The harness (not the code under check) misbehaved: never a verdict about the property."""


# --------------------------------------------------------------------------------------------------
# Adapter protocol
# --------------------------------------------------------------------------------------------------
class Adapter:
    """System-under-test adapter for ``bfs``.

    Events and outcomes must be JSON-serialisable (lists/tuples/str/int/bool/None).
    """

    name = "adapter"

    def params(self) -> Dict:
        """Harness parameters written into replay files."""
        return {}

    def build(self) -> Any:
        raise NotImplementedError

    def menu(self, sut) -> List:
        raise NotImplementedError

    def apply(self, sut, event) -> Tuple[Any, List[Dict]]:
        """Apply one event to the real objects. Returns (outcome, violations found on this transition)."""
        raise NotImplementedError

    def canon(self, sut) -> Any:
        raise NotImplementedError

    def check_initial(self, sut) -> List[Dict]:
        return []

    def label(self, event) -> str:
        """Histogram key of an event (its kind)."""
        return str(event[0]) if isinstance(event, (list, tuple)) and event else str(event)


_ADAPTERS: Dict[str, Adapter] = {}


def digest(obj) -> str:
    return hashlib.sha1(repr(obj).encode()).hexdigest()[:20]


def _expand(task):
    """Worker: expand one state (given by its history) under adapter ``key``."""
    key, history = task
    ad = _ADAPTERS[key]
    out = []
    try:
        sut = ad.build()
        for ev in history:
            ad.apply(sut, ev)
        base = digest(ad.canon(sut))
        menu = list(ad.menu(sut))
        first = True
        for ev in menu:
            if not first:
                sut = ad.build()
                for e in history:
                    ad.apply(sut, e)
                if digest(ad.canon(sut)) != base:
                    raise HarnessError("non-deterministic replay of %r" % (history,))
            first = False
            outcome, viols = ad.apply(sut, ev)
            out.append((ev, outcome, digest(ad.canon(sut)), viols))
        return ("ok", history, base, out)
    except HarnessError as e:
        return ("harness", history, None, "".join(traceback.format_exception(e)))
    except BaseException as e:  # noqa - an escaping exception in build/replay is a harness fault
        return ("harness", history, None, "".join(traceback.format_exception(e)))


def _replay_digest(task):
    key, history = task
    ad = _ADAPTERS[key]
    sut = ad.build()
    outs = []
    for ev in history:
        o, _ = ad.apply(sut, ev)
        outs.append(o)
    return digest((ad.canon(sut), outs))


_POOL = None


def pool():
    """Fork-started pool; must be called after every adapter has been registered and PrimAITE imported."""
    global _POOL
    if _POOL is None:
        import gc

        gc.collect()
        gc.freeze()
        ctx = mp.get_context("fork")
        _POOL = ctx.Pool(common.WORKERS, maxtasksperchild=None)
    return _POOL


def close_pool():
    global _POOL
    if _POOL is not None:
        _POOL.terminate()
        _POOL.join()
        _POOL = None


class BfsResult:
    def __init__(self):
        self.states = 0
        self.transitions = 0
        self.max_depth_completed = 0
        self.frontier_emptied = False
        self.violations: List[Dict] = []
        self.hist: Dict[str, int] = {}
        self.outcomes: set = set()
        self.samples: List = []
        self.pruned = 0
        self.capped: Optional[str] = None
        self.level_sizes: List[int] = []
        self.merged = 0
        self.determinism_checked = 0


def bfs(
    ad: Adapter,
    depth: int,
    state_budget: int = 10**9,
    time_budget: float = 10**9,
    is_known: Callable[[Dict], bool] = lambda v: False,
    max_violations: int = 200,
    key: Optional[str] = None,
) -> BfsResult:
    """Level-synchronous BFS over ``ad`` to ``depth`` events, complete below any cap that is reported."""
    key = key or ad.name
    if _POOL is not None and key not in _ADAPTERS:
        # adapters must exist in the workers: restart the pool
        close_pool()
    _ADAPTERS[key] = ad
    t0 = time.time()
    res = BfsResult()
    rng = random.Random(common.SEED)

    sut = ad.build()
    init_v = ad.check_initial(sut)
    for v in init_v:
        v.update(history=[], event=None, adapter=key, params=ad.params())
    res.violations.extend(init_v)
    seen = {digest(ad.canon(sut))}
    res.states = 1
    frontier: List[List] = [[]]
    p = pool()
    sample_hist: List[List] = []
    for level in range(depth):
        if not frontier:
            res.frontier_emptied = True
            break
        if time.time() - t0 > time_budget:
            res.capped = "time budget %.0fs reached before level %d" % (time_budget, level + 1)
            break
        if res.states >= state_budget:
            res.capped = "state budget %d reached before level %d" % (state_budget, level + 1)
            break
        rng.shuffle(frontier)
        nxt: List[List] = []
        stop = False
        for r in p.imap_unordered(_expand, [(key, h) for h in frontier], chunksize=1):
            status, history, base, out = r
            if status != "ok":
                raise HarnessError("worker failed on history %r:\n%s" % (history, out))
            for ev, outcome, dg, viols in out:
                res.transitions += 1
                lab = ad.label(ev)
                res.hist[lab] = res.hist.get(lab, 0) + 1
                res.outcomes.add(digest((lab, outcome)))
                unknown = []
                for v in viols:
                    v.update(history=list(history), event=ev, adapter=key, params=ad.params())
                    if not is_known(v):
                        unknown.append(v)
                    res.violations.append(v)
                if viols:
                    # do not search beneath a violating transition (known or not): everything else is explored
                    res.pruned += 1
                    continue
                if dg in seen:
                    res.merged += 1
                    continue
                seen.add(dg)
                res.states += 1
                nxt.append(list(history) + [ev])
                if len(res.samples) < 3 and len(history) + 1 >= min(depth, 3):
                    res.samples.append({"history": list(history) + [ev], "outcome": outcome})
            if len([v for v in res.violations if not is_known(v)]) >= max_violations:
                stop = True
                break
        res.level_sizes.append(len(nxt))
        if stop:
            res.capped = "stopped after %d violations" % max_violations
            break
        res.max_depth_completed = level + 1
        if nxt:
            sample_hist = nxt
        frontier = nxt
    else:
        if not frontier:
            res.frontier_emptied = True
    # determinism self-check: deepest histories are replayed in two different workers
    if sample_hist:
        picks = sample_hist[:: max(1, len(sample_hist) // 8)][:8]
        a = p.map(_replay_digest, [(key, h) for h in picks], chunksize=1)
        b = p.map(_replay_digest, [(key, h) for h in reversed(picks)], chunksize=1)
        if a != list(reversed(b)):
            raise HarnessError("determinism self-check failed for adapter %s" % key)
        res.determinism_checked = len(picks)
    if not res.samples and sample_hist:
        res.samples.append({"history": sample_hist[0]})
    return res


# --------------------------------------------------------------------------------------------------
# Product enumeration
# --------------------------------------------------------------------------------------------------
_FUNCS: Dict[str, Callable] = {}


def _call(task):
    key, item = task
    try:
        return ("ok", item, _FUNCS[key](item))
    except BaseException as e:  # noqa
        return ("harness", item, "".join(traceback.format_exception(e)))


def pmap(key: str, func: Callable, items: Sequence, chunksize: int = 1) -> Iterable:
    """Run ``func`` over every item on the pool (complete enumeration; order of results unspecified).

    ``func(item)`` returns anything picklable. A raised exception is a harness fault.
    """
    if _POOL is not None and key not in _FUNCS:
        close_pool()
    _FUNCS[key] = func
    p = pool()
    for status, item, r in p.imap_unordered(_call, [(key, it) for it in items], chunksize=chunksize):
        if status != "ok":
            raise HarnessError("worker failed on item %r:\n%s" % (item, r))
        yield item, r


def deviation_scripts(horizon: int, alphabet_size_at: Callable[[int], int], k: int):
    """All scripts over ``horizon`` slots with at most ``k`` non-default choices.

    A script is a tuple of (slot, choice) pairs, choice >= 1 (0 is the default). ``alphabet_size_at(slot)``
    is the number of choices (including the default) at that slot.
    """
    yield ()
    for n in range(1, k + 1):
        for slots in itertools.combinations(range(horizon), n):
            ranges = [range(1, alphabet_size_at(s)) for s in slots]
            for choice in itertools.product(*ranges):
                yield tuple(zip(slots, choice))
