"""Environment-level harness: generated scenario family GEN, shipped scenarios, env construction, step digests.

GEN members are plain dictionaries in the documented YAML schema (same shape the shipped scenarios have). The family is
an explicit finite list (``GEN``) and is always enumerated completely by the checks that use it.
"""
from __future__ import annotations

import copy
import hashlib
import itertools
import os
from typing import Any, Dict, List, Optional

from . import common

common.import_sim()

PKG = os.path.join(common.SRC, "primaite", "config", "_package_data")

SHIPPED = {
    "data_manipulation": os.path.join(PKG, "data_manipulation.yaml"),
    "uc7": os.path.join(PKG, "uc7_config.yaml"),
    "uc7_tap003": os.path.join(PKG, "uc7_config_tap003.yaml"),
    "sched_uc7_variants": os.path.join(PKG, "uc7_multiple_attack_variants"),
    "sched_placeholders": os.path.join(PKG, "scenario_with_placeholders"),
    "sched_mini": os.path.join(PKG, "mini_scenario_with_simulation_variation"),
}


def import_env():
    """Import the Gym environment layer (8-40 s: pulls torch). Call before the worker pool is forked."""
    import sys

    # The environment module imports torch only to seed torch's RNG (nothing in the simulation uses it). Blocking the
    # import keeps the checking process small (fork snapshots 5 ms instead of 10+) and the import at 2.5 s instead of 8-40 s.
    if "torch" not in sys.modules:
        sys.modules["torch"] = None
    from primaite.session.environment import PrimaiteGymEnv  # noqa

    common.quiet()
    return PrimaiteGymEnv


def load_yaml(path):
    import yaml

    with open(path) as f:
        return yaml.safe_load(f)


# ----------------------------------------------------------------------------------------------------------
# GEN
# ----------------------------------------------------------------------------------------------------------
ROUTER_ACL = {
    17: {"action": "PERMIT", "src_port": "SSH", "dst_port": "SSH"},  # remote sessions on the servers and on the gateway itself
    18: {"action": "PERMIT", "src_port": "POSTGRES_SERVER", "dst_port": "POSTGRES_SERVER"},
    19: {"action": "PERMIT", "src_port": "DNS", "dst_port": "DNS"},
    20: {"action": "PERMIT", "src_port": "FTP", "dst_port": "FTP"},
    21: {"action": "PERMIT", "src_port": "HTTP", "dst_port": "HTTP"},
    22: {"action": "PERMIT", "src_port": "ARP", "dst_port": "ARP"},
    23: {"action": "PERMIT", "protocol": "ICMP"},
}
FW_LIST = {
    18: {"action": "PERMIT", "src_port": "SSH", "dst_port": "SSH"},
    19: {"action": "PERMIT", "src_port": "POSTGRES_SERVER", "dst_port": "POSTGRES_SERVER"},
    20: {"action": "PERMIT", "src_port": "DNS", "dst_port": "DNS"},
    21: {"action": "PERMIT", "src_port": "HTTP", "dst_port": "HTTP"},
    22: {"action": "PERMIT", "src_port": "ARP", "dst_port": "ARP"},
    23: {"action": "PERMIT", "protocol": "ICMP"},
}

HOSTS = ["web_server", "database_server", "backup_server", "client_1", "client_2"]
IPS = {"web_server": "192.168.1.12", "database_server": "192.168.1.14", "backup_server": "192.168.1.16",
       "client_1": "192.168.10.21", "client_2": "192.168.10.22"}


def _nodes(v):
    d = v.get("dur", 1)
    dur = {"start_up_duration": d, "shut_down_duration": d}
    gw_srv = "192.168.1.1"
    gw_cli = "192.168.10.1"
    nodes = []
    if v.get("topo", "routed") == "routed":
        nodes.append({"hostname": "router_1", "type": "router", "num_ports": 3,
                      "ports": {1: {"ip_address": "192.168.1.1", "subnet_mask": "255.255.255.0"},
                                2: {"ip_address": "192.168.10.1", "subnet_mask": "255.255.255.0"}},
                      "acl": copy.deepcopy(ROUTER_ACL), **dur})
    else:
        nodes.append({"hostname": "firewall_1", "type": "firewall",
                      "ports": {"external_port": {"ip_address": "192.168.10.1", "subnet_mask": "255.255.255.0"},
                                "internal_port": {"ip_address": "192.168.1.1", "subnet_mask": "255.255.255.0"}},
                      "acl": {k: copy.deepcopy(FW_LIST) for k in
                              ("internal_inbound_acl", "internal_outbound_acl", "dmz_inbound_acl", "dmz_outbound_acl",
                               "external_inbound_acl", "external_outbound_acl")}, **dur})
    nodes.append({"hostname": "switch_1", "type": "switch", "num_ports": 4, **dur})
    nodes.append({"hostname": "switch_2", "type": "switch", "num_ports": 4, **dur})
    nodes.append({"hostname": "web_server", "type": "server", "ip_address": IPS["web_server"], "subnet_mask": "255.255.255.0",
                  "default_gateway": gw_srv, "dns_server": IPS["backup_server"], **dur,
                  "services": [{"type": "web-server"}],
                  "applications": [{"type": "database-client", "options": {"db_server_ip": IPS["database_server"]}}]})
    nodes.append({"hostname": "database_server", "type": "server", "ip_address": IPS["database_server"], "subnet_mask": "255.255.255.0",
                  "default_gateway": gw_srv, "dns_server": IPS["backup_server"], **dur,
                  "services": [{"type": "database-service", "options": {"backup_server_ip": IPS["backup_server"]}},
                               {"type": "ftp-client"}],
                  "users": [{"username": "ops", "password": "pw1", "is_admin": False}]})
    nodes.append({"hostname": "backup_server", "type": "server", "ip_address": IPS["backup_server"], "subnet_mask": "255.255.255.0",
                  "default_gateway": gw_srv, **dur,
                  "services": [{"type": "ftp-server"},
                               {"type": "dns-server", "options": {"domain_mapping": {"arcd.com": IPS["web_server"]}}}],
                  "folders": [{"folder_name": "docs", "files": [{"file_name": "a.txt"}, {"file_name": "b.txt"}]}]})
    nodes.append({"hostname": "client_1", "type": "computer", "ip_address": IPS["client_1"], "subnet_mask": "255.255.255.0",
                  "default_gateway": gw_cli, "dns_server": IPS["backup_server"], **dur,
                  "applications": [
                      {"type": "data-manipulation-bot", "options": {"port_scan_p_of_success": 1.0 if v.get("det") else 0.8,
                                                                    "data_manipulation_p_of_success": 1.0 if v.get("det") else 0.8,
                                                                    "payload": "DELETE", "server_ip": IPS["database_server"]}},
                      {"type": "web-browser", "options": {"target_url": "http://arcd.com/users/"}},
                      {"type": "database-client", "options": {"db_server_ip": IPS["database_server"]}}],
                  "services": [{"type": "dns-client"}]})
    nodes.append({"hostname": "client_2", "type": "computer", "ip_address": IPS["client_2"], "subnet_mask": "255.255.255.0",
                  "default_gateway": gw_cli, "dns_server": IPS["backup_server"], **dur,
                  "applications": [
                      {"type": "web-browser", "options": {"target_url": "http://arcd.com/users/"}},
                      {"type": "ransomware-script", "options": {"server_ip": IPS["database_server"]}},
                      {"type": "dos-bot", "options": {"target_ip_address": IPS["database_server"], "payload": "SPOOF DATA",
                                                      "port_scan_p_of_success": 0.8}}],
                  "folders": [{"folder_name": "downloads", "files": [{"file_name": "cat.png"}]}]})
    return nodes


def _links(v):
    gwname = "router_1" if v.get("topo", "routed") == "routed" else "firewall_1"
    bw = v.get("bandwidth", 100)
    # router: port 1 = server side, port 2 = client side; firewall: port 1 external (clients), port 2 internal (servers)
    srv_port, cli_port = (1, 2) if gwname == "router_1" else (2, 1)
    L = [(gwname, srv_port, "switch_1", 4), (gwname, cli_port, "switch_2", 4),
         ("switch_1", 1, "web_server", 1), ("switch_1", 2, "database_server", 1), ("switch_1", 3, "backup_server", 1),
         ("switch_2", 1, "client_1", 1), ("switch_2", 2, "client_2", 1)]
    return [{"endpoint_a_hostname": a, "endpoint_a_port": pa, "endpoint_b_hostname": b, "endpoint_b_port": pb, "bandwidth": bw}
            for a, pa, b, pb in L]


def link_refs(v):
    return ["%s:eth-%d<->%s:eth-%d" % (l["endpoint_a_hostname"], l["endpoint_a_port"], l["endpoint_b_hostname"], l["endpoint_b_port"])
            for l in _links(v)]


def blue_actions(v) -> List[Dict]:
    """One entry per registered action type and target class (existing / ghost / other node kind)."""
    gw = "router_1" if v.get("topo", "routed") == "routed" else "firewall_1"
    A = []

    def add(action, **options):
        A.append({"action": action, "options": options})

    add("do-nothing")
    for node in ("web_server", "ghost"):
        for verb in ("scan", "stop", "start", "pause", "resume", "restart", "disable", "enable", "fix"):
            add("node-service-" + verb, node_name=node, service_name="web-server")
    add("node-service-stop", node_name="web_server", service_name="no-such-service")
    add("node-service-fix", node_name="database_server", service_name="database-service")
    add("node-service-restart", node_name="database_server", service_name="database-service")
    for verb in ("execute", "scan", "close", "fix"):
        add("node-application-" + verb, node_name="client_1", application_name="web-browser")
        add("node-application-" + verb, node_name="client_1", application_name="data-manipulation-bot")
    add("node-application-execute", node_name="client_2", application_name="dos-bot")
    add("node-application-execute", node_name="client_2", application_name="ransomware-script")
    add("node-application-execute", node_name="client_1", application_name="database-client")
    add("node-application-execute", node_name="ghost", application_name="web-browser")
    # an application that only exists after the install action: its own requests
    for verb in ("execute", "scan", "close", "fix"):
        add("node-application-" + verb, node_name="client_2", application_name="database-client")
    add("node-application-install", node_name="client_2", application_name="database-client")
    add("node-application-install", node_name="client_2", application_name="c2-beacon")
    add("node-application-remove", node_name="client_2", application_name="database-client")
    add("node-application-remove", node_name="client_1", application_name="web-browser")
    add("node-application-remove", node_name="web_server", application_name="web-browser")  # shares port 80 with web-server
    add("node-application-install", node_name="ghost", application_name="dos-bot")
    for verb in ("scan", "checkhash", "repair", "restore", "corrupt", "delete", "access"):
        add("node-file-" + verb, node_name="backup_server", folder_name="docs", file_name="a.txt")
    # a second file of the same folder and a second folder of the same host (verdicts must not be shared between them)
    add("node-file-scan", node_name="backup_server", folder_name="docs", file_name="b.txt")
    add("node-file-delete", node_name="backup_server", folder_name="docs", file_name="b.txt")
    add("node-file-corrupt", node_name="backup_server", folder_name="docs", file_name="b.txt")
    add("node-folder-scan", node_name="backup_server", folder_name="newdir")
    add("node-folder-repair", node_name="backup_server", folder_name="newdir")
    add("node-file-delete", node_name="database_server", folder_name="database", file_name="database.db")
    add("node-file-scan", node_name="database_server", folder_name="database", file_name="database.db")
    add("node-file-repair", node_name="database_server", folder_name="database", file_name="database.db")
    add("node-file-scan", node_name="backup_server", folder_name="docs", file_name="nope.txt")
    add("node-file-create", node_name="backup_server", folder_name="docs", file_name="a.txt")
    add("node-file-create", node_name="backup_server", folder_name="docs", file_name="new.txt", force=True)
    add("node-file-create", node_name="backup_server", folder_name="newdir", file_name="n.txt")
    for verb in ("scan", "checkhash", "repair", "restore", "create"):
        add("node-folder-" + verb, node_name="backup_server", folder_name="docs")
    add("node-folder-scan", node_name="database_server", folder_name="database")
    add("node-folder-restore", node_name="database_server", folder_name="database")
    add("node-folder-scan", node_name="backup_server", folder_name="nope")
    for node in ("client_1", "database_server", "backup_server", "web_server", "ghost", gw, "switch_1"):
        for a in ("node-os-scan", "node-shutdown", "node-startup", "node-reset"):
            add(a, node_name=node)
    add("host-nic-disable", node_name="client_1", nic_num=1)
    add("host-nic-enable", node_name="client_1", nic_num=1)
    add("host-nic-disable", node_name="client_1", nic_num=2)
    add("host-nic-disable", node_name="database_server", nic_num=1)
    add("host-nic-enable", node_name="database_server", nic_num=1)
    add("network-port-disable", target_nodename=gw, port_num=1)
    add("network-port-enable", target_nodename=gw, port_num=1)
    add("network-port-disable", target_nodename=gw, port_num=2)
    add("network-port-enable", target_nodename=gw, port_num=2)
    add("network-port-disable", target_nodename=gw, port_num=9)
    rule = dict(permission="DENY", src_ip=IPS["client_1"], dst_ip="ALL", src_port="ALL", dst_port="ALL", protocol_name="ALL",
                src_wildcard="NONE", dst_wildcard="NONE")
    rule2 = dict(permission="DENY", src_ip="10.9.9.9", dst_ip=IPS["database_server"], src_port="ALL", dst_port="POSTGRES_SERVER",
                 protocol_name="TCP", src_wildcard="0.0.0.255", dst_wildcard="NONE")
    rule3 = dict(permission="PERMIT", src_ip=IPS["client_2"], dst_ip=IPS["web_server"], src_port="HTTP", dst_port="HTTP",
                 protocol_name="TCP", src_wildcard="0.0.255.255", dst_wildcard="0.0.0.1")
    if gw == "router_1":
        for pos in (0, 1, 9, 23):
            add("router-acl-add-rule", target_router=gw, position=pos, **rule)
        add("router-acl-add-rule", target_router=gw, position=2, **rule2)
        add("router-acl-add-rule", target_router=gw, position=3, **rule3)
        add("router-acl-add-rule", target_router="ghost", position=1, **rule)
        for pos in (0, 1, 2, 21, 23):
            add("router-acl-remove-rule", target_router=gw, position=pos)
    else:
        for port, direction in (("internal", "inbound"), ("internal", "outbound"), ("external", "inbound"), ("dmz", "outbound")):
            add("firewall-acl-add-rule", target_firewall_nodename=gw, firewall_port_name=port, firewall_port_direction=direction,
                position=1, **rule)
            add("firewall-acl-remove-rule", target_firewall_nodename=gw, firewall_port_name=port,
                firewall_port_direction=direction, position=1)
        add("firewall-acl-add-rule", target_firewall_nodename=gw, firewall_port_name="internal", firewall_port_direction="inbound",
            position=0, **rule2)
        add("firewall-acl-add-rule", target_firewall_nodename=gw, firewall_port_name="external", firewall_port_direction="outbound",
            position=2, **rule3)
        add("firewall-acl-remove-rule", target_firewall_nodename=gw, firewall_port_name="internal",
            firewall_port_direction="inbound", position=21)
    add("node-account-add-user", node_name="database_server", username="eve", password="pw9", is_admin=False)
    add("node-account-change-password", node_name="database_server", username="ops", current_password="pw1", new_password="pw2")
    add("node-account-change-password", node_name="database_server", username="ops", current_password="bad", new_password="pw2")
    add("node-account-disable-user", node_name="database_server", username="ops")
    add("node-account-disable-user", node_name="database_server", username="admin")
    add("node-session-remote-login", node_name="client_1", remote_ip=IPS["database_server"], username="ops", password="pw1")
    add("node-session-remote-login", node_name="client_1", remote_ip=IPS["database_server"], username="ops", password="bad")
    add("node-session-remote-logoff", node_name="client_1", remote_ip=IPS["database_server"])
    add("node-send-remote-command", node_name="client_1", remote_ip=IPS["database_server"],
        command=["file_system", "create", "file", "rc", "marker.txt", False])
    add("node-send-remote-command", node_name="client_1", remote_ip=IPS["database_server"],
        command=["service", "database-service", "stop"])
    add("node-send-local-command", node_name="database_server", username="ops", password="pw1",
        command=["file_system", "create", "folder", "lc"])
    add("node-send-local-command", node_name="database_server", username="ops", password="bad",
        command=["file_system", "create", "folder", "lc2"])
    add("configure-database-client", node_name="client_1", server_ip_address=IPS["database_server"], server_password="x")
    add("configure-database-client", node_name="client_1", server_ip_address=IPS["database_server"])
    add("configure-ransomware-script", node_name="client_2", server_ip_address=IPS["database_server"], payload="ENCRYPT")
    add("configure-dos-bot", node_name="client_2", target_ip_address=IPS["web_server"], target_port="HTTP", dos_intensity=1.0,
        max_sessions=20)
    add("configure-c2-beacon", node_name="client_2", c2_server_ip_address=IPS["client_1"])
    add("c2-server-ransomware-launch", node_name="client_1")
    add("c2-server-ransomware-configure", node_name="client_1", server_ip_address=IPS["database_server"], payload="ENCRYPT")
    add("c2-server-terminal-command", node_name="client_1", commands=["file_system", "create", "folder", "c2"],
        ip_address=None, username="admin", password="admin")
    add("c2-server-data-exfiltrate", node_name="client_1", username="admin", password="admin",
        target_ip_address=IPS["database_server"], target_file_name="database.db", target_folder_name="database",
        exfiltration_folder_name="spoils")
    add("node-nmap-ping-scan", source_node="client_1", target_ip_address=IPS["database_server"], show=False)
    add("node-nmap-ping-scan", source_node="client_1", target_ip_address="192.168.1.0/28", show=False)
    add("node-nmap-port-scan", source_node="client_1", target_ip_address=IPS["database_server"], target_protocol="tcp",
        target_port=[5432, 80], show=False)
    add("node-network-service-recon", source_node="client_1", target_ip_address="192.168.1.12/30", target_protocol="tcp",
        target_port=80, show=False)
    # (appended: indices of the entries above never change)
    # a file-system level restore sent through the terminal: restores a deleted file without going through the folder's route
    add("node-send-local-command", node_name="backup_server", username="admin", password="admin",
        command=["file_system", "restore", "file", "docs", "a.txt"])
    add("node-send-local-command", node_name="backup_server", username="admin", password="admin",
        command=["file_system", "delete", "file", "docs", "b.txt"])
    # sessions on the gateway device itself (router / firewall): remote from a client, local through its terminal
    add("node-session-remote-login", node_name="client_1", remote_ip="192.168.10.1", username="admin", password="admin")
    add("node-session-remote-login", node_name="client_2", remote_ip="192.168.10.1", username="admin", password="admin")
    add("node-send-local-command", node_name=gw, username="admin", password="admin", command=["file_system", "create", "folder", "gwdir"])
    add("node-session-remote-logoff", node_name="client_1", remote_ip="192.168.10.1")
    add("node-application-install", node_name="client_1", application_name="web-browser")  # after its removal: the same name again
    return A


def _blue(v):
    scan = v.get("scan", True)
    hosts_cfg = [
        {"hostname": "web_server", "services": [{"service_name": "web-server"}], "applications": [{"application_name": "database-client"}]},
        {"hostname": "database_server", "services": [{"service_name": "database-service"}, {"service_name": "ftp-client"}],
         "folders": [{"folder_name": "database", "files": [{"file_name": "database.db"}]}]},
        # more entries than num_services / num_folders / num_files allow (legal: the surplus is truncated with a warning)
        {"hostname": "backup_server", "services": [{"service_name": "ftp-server"}, {"service_name": "dns-server"}, {"service_name": "ntp-client"}],
         "folders": [{"folder_name": "docs", "files": [{"file_name": "a.txt"}, {"file_name": "b.txt"}, {"file_name": "c.txt"}]},
                     {"folder_name": "newdir"}, {"folder_name": "surplus"}]},
        {"hostname": "client_1", "applications": [{"application_name": "web-browser"}, {"application_name": "data-manipulation-bot"},
                                                  {"application_name": "database-client"}]},
        {"hostname": "client_2", "applications": [{"application_name": "dos-bot"}, {"application_name": "database-client"}],
         "folders": [{"folder_name": "downloads", "files": [{"file_name": "cat.png"}]}]},
        {"hostname": "ghost_host"},
    ]
    nodes_opts = {
        "hosts": hosts_cfg, "num_services": 2, "num_applications": 2, "num_folders": 2, "num_files": 2, "num_nics": 2,
        "include_num_access": v.get("access", False), "include_nmne": v.get("nmne", True),
        "file_system_requires_scan": v.get("scan_fs", scan), "services_requires_scan": v.get("scan_svc", scan),
        "applications_requires_scan": v.get("scan_app", scan),
        "num_ports": 3, "ip_list": [IPS[h] for h in HOSTS], "wildcard_list": list(v.get("wildcards", ["0.0.0.1", "0.0.0.255"])),
        "port_list": ["HTTP", "POSTGRES_SERVER"], "protocol_list": ["ICMP", "TCP", "UDP"], "num_rules": 5,
    }
    for h in hosts_cfg:  # per-host options that differ from the nodes-level ones
        h.update(copy.deepcopy(v.get("host_overrides", {}).get(h["hostname"], {})))
    if v.get("dup_lists"):  # legal: an entry listed twice
        nodes_opts["ip_list"] = nodes_opts["ip_list"] + [IPS["client_1"]]
        nodes_opts["wildcard_list"] = nodes_opts["wildcard_list"] + [nodes_opts["wildcard_list"][0]]
        nodes_opts["port_list"] = nodes_opts["port_list"] + ["HTTP"]
    if v.get("traffic", False):
        nodes_opts["monitored_traffic"] = {"icmp": ["NONE"], "tcp": ["HTTP", "POSTGRES_SERVER"], "udp": ["DNS"]}
    if v.get("topo", "routed") == "routed":
        nodes_opts["routers"] = [{"hostname": "router_1"}]
        if v.get("router_ports"):  # an explicit port list shorter / longer than num_ports (padded / truncated)
            nodes_opts["routers"][0]["ports"] = [{"port_id": i} for i in v["router_ports"]]
    else:
        nodes_opts["firewalls"] = [{"hostname": "firewall_1"}]
    amap = {i: a for i, a in enumerate(blue_actions(v))}
    rewards = [
        {"type": "database-file-integrity", "weight": 0.4, "options": {"node_hostname": "database_server", "folder_name": "database",
                                                                      "file_name": "database.db"}},
        {"type": "web-server-404-penalty", "weight": 0.3, "options": {"node_hostname": "web_server", "service_name": "web-server",
                                                                     "sticky": v.get("sticky", True)}},
        {"type": "action-penalty", "weight": 0.2, "options": {"action_penalty": -0.5, "do_nothing_penalty": 0.125}},
        {"type": "action-penalty", "weight": 0.0, "options": {"action_penalty": -9.0, "do_nothing_penalty": 9.0}},
        {"type": "shared-reward", "weight": 1.0, "options": {"agent_name": "green_1"}},
        # components watching ANOTHER node than the one the agent's matching actions address (client_1)
        {"type": "green-admin-database-unreachable-penalty", "weight": 0.05,
         "options": {"node_hostname": "client_2", "sticky": v.get("sticky", True)}},
        {"type": "webpage-unavailable-penalty", "weight": 0.05, "options": {"node_hostname": "client_2", "sticky": v.get("sticky", True)}},
    ]
    return {
        "ref": "defender", "team": "BLUE", "type": "proxy-agent",
        "observation_space": {"type": "custom", "options": {"components": [
            {"type": "nodes", "label": "NODES", "options": nodes_opts},
            {"type": "links", "label": "LINKS", "options": {"link_references": link_refs(v) + ["ghost:eth-1<->nowhere:eth-1"]}},
            {"type": "none", "label": "ICS", "options": {}}]}},
        "action_space": {"action_map": amap},
        "reward_function": {"reward_components": rewards},
        "agent_settings": {"flatten_obs": v.get("flatten", False), "action_masking": v.get("masking", False)},
    }


def _green(v):
    return {
        "ref": "green_1", "team": "GREEN", "type": "probabilistic-agent",
        "agent_settings": {"action_probabilities": {0: 0.3, 1: 0.5, 2: 0.2}},
        "action_space": {"action_map": {
            0: {"action": "do-nothing", "options": {}},
            1: {"action": "node-application-execute", "options": {"node_name": "client_1", "application_name": "web-browser"}},
            2: {"action": "node-application-execute", "options": {"node_name": "client_1", "application_name": "database-client"}}}},
        "reward_function": {"reward_components": [
            {"type": "webpage-unavailable-penalty", "weight": 0.25, "options": {"node_hostname": "client_1", "sticky": v.get("sticky", True)}},
            {"type": "green-admin-database-unreachable-penalty", "weight": 0.05,
             "options": {"node_hostname": "client_1", "sticky": v.get("sticky", True)}},
            # a component written without options (its documented defaults apply) but with a weight of its own
            {"type": "action-penalty", "weight": 0.125}]},
    }


def _red(v):
    return {
        "ref": "red_1", "team": "RED", "type": "red-database-corrupting-agent",
        "agent_settings": {"possible_start_nodes": ["client_1"], "target_application": "data-manipulation-bot",
                           "start_step": v.get("red_start", 2), "frequency": 2, "variance": 0 if v.get("det") else 1},
    }


def gen_scenario(v: Dict) -> Dict:
    cfg = {
        "metadata": {"version": 3.0},
        "io_settings": {"save_agent_actions": False, "save_step_metadata": False, "save_pcap_logs": False, "save_sys_logs": False},
        "game": {"max_episode_length": v.get("ep_len", 6), "ports": ["HTTP", "POSTGRES_SERVER", "DNS", "FTP"],
                 "protocols": ["ICMP", "TCP", "UDP"],
                 "thresholds": {"nmne": {"high": 10, "medium": 5, "low": 0}}},
        "agents": [_green(v), _red(v), _blue(v)],
        "simulation": {"network": {"nmne_config": {"capture_nmne": v.get("capture", v.get("nmne", True)), "nmne_capture_keywords": ["DELETE"]},
                                   "nodes": _nodes(v), "links": _links(v)}},
    }
    if "seed" in v:
        cfg["game"]["seed"] = v["seed"]
    return cfg


def _variants():
    out = []
    base = dict(topo="routed", flatten=False, masking=False, scan=True, nmne=True, traffic=False, access=False, dur=1, ep_len=6)
    out.append(dict(base, access=True, host_overrides={"client_1": {"applications_requires_scan": False},
                                          "database_server": {"services_requires_scan": False},
                                          "backup_server": {"file_system_requires_scan": False},
                                          "client_2": {"include_nmne": False, "num_nics": 1}}))
    out.append(dict(base, flatten=True, masking=True, scan=False, traffic=True, access=True, wildcards=["0.0.0.1"], router_ports=[1, 2],
                    host_overrides={"web_server": {"services_requires_scan": True, "applications_requires_scan": True}}))
    out.append(dict(base, topo="firewall", masking=True, traffic=True, wildcards=["0.0.0.1", "0.0.0.255", "0.0.255.255"],
                    host_overrides={"client_1": {"applications_requires_scan": False},
                                    # an empty traffic mapping on one host while its siblings monitor ports
                                    "client_2": {"monitored_traffic": {}}}))
    out.append(dict(base, topo="firewall", flatten=True, scan=False, nmne=False, access=True, dur=2))
    # NMNE included in the observation although the scenario does not capture it
    out.append(dict(base, masking=True, nmne=True, capture=False, dur=2, bandwidth=0.01, dup_lists=True))
    out.append(dict(base, flatten=True, dur=0, sticky=False, traffic=True, router_ports=[1, 2, 3, 4]))
    for i, v in enumerate(out):
        v["name"] = "gen%d" % i
    return out


GEN = _variants()


def make_schedule_dir(path, variant=None, episodes=2):
    """Write an episode-schedule directory (schedule.yaml, base scenario with a YAML alias, one variant file per episode that
    defines the anchor) for a GEN scenario WITH a router - the shipped small schedules have none. Returns the path."""
    import yaml

    v = dict(variant or GEN[0])
    cfg = gen_scenario(dict(v, ep_len=987654))
    os.makedirs(path, exist_ok=True)
    base = yaml.safe_dump(cfg, sort_keys=False).replace("987654", "*ep_len")
    open(os.path.join(path, "base_scenario.yaml"), "w").write(base)
    sched = {"base_scenario": "base_scenario.yaml", "schedule": {}}
    for e in range(episodes):
        fn = "variant_%d.yaml" % e
        open(os.path.join(path, fn), "w").write("ep_len: &ep_len %d\n" % (6 + e))
        sched["schedule"][e] = [fn]
    open(os.path.join(path, "schedule.yaml"), "w").write(yaml.safe_dump(sched, sort_keys=False))
    return path


# ----------------------------------------------------------------------------------------------------------
# Digests
# ----------------------------------------------------------------------------------------------------------
def to_plain(x):
    """numpy / pydantic / nested containers -> plain JSON-like python (dict keys sorted, list order kept)."""
    import numpy as np

    if isinstance(x, dict):
        return {str(k): to_plain(x[k]) for k in sorted(x, key=str)}
    if isinstance(x, (list, tuple)):
        return [to_plain(i) for i in x]
    if isinstance(x, np.ndarray):
        return x.tolist()
    if isinstance(x, (np.integer,)):
        return int(x)
    if isinstance(x, (np.floating,)):
        return float(x)
    if hasattr(x, "model_dump"):
        return to_plain(x.model_dump())
    if isinstance(x, (str, int, float, bool)) or x is None:
        return x
    return str(x)


def sha(x) -> str:
    return hashlib.sha1(repr(x).encode()).hexdigest()[:16]
