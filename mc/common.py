"""Process-wide settings: which tree is checked, tier, seed; import of PrimAITE with logging silenced."""
import os
import sys
import logging
import warnings

VERIF_DIR = os.path.dirname(os.path.dirname(os.path.abspath(__file__)))
REPO = os.environ.get("VERIF_REPO", "/repo")
SRC = os.path.join(REPO, "src")
if SRC not in sys.path[:1]:
    sys.path.insert(0, SRC)

SEED = int(os.environ.get("VERIF_SEED", "0") or 0)
WORKERS = int(os.environ.get("VERIF_WORKERS", "0") or 0) or min(16, os.cpu_count() or 1)


def quiet():
    """Silence PrimAITE's loggers and warnings (they are not part of any property)."""
    warnings.filterwarnings("ignore")
    logging.disable(logging.CRITICAL)


def import_sim():
    """Import the simulator layer (2 s) from the tree under check and return the package."""
    quiet()
    import primaite  # noqa

    assert os.path.abspath(primaite.__file__).startswith(os.path.abspath(SRC)), (
        "PrimAITE imported from %s, expected %s" % (primaite.__file__, SRC)
    )
    quiet()
    return primaite
