"""Tiny real networks built through the Python API, plus deep canonical-state helpers.

Everything here builds *real* PrimAITE objects; nothing is mocked.
"""
from __future__ import annotations

from typing import Dict, Iterable, List, Optional

from . import common

common.import_sim()

from primaite.simulator.network.hardware.nodes.host.computer import Computer  # noqa: E402
from primaite.simulator.network.hardware.nodes.host.server import Server  # noqa: E402
from primaite.simulator.network.hardware.nodes.network.firewall import Firewall  # noqa: E402
from primaite.simulator.network.hardware.nodes.network.router import ACLAction, Router  # noqa: E402
from primaite.simulator.network.hardware.nodes.network.switch import Switch  # noqa: E402
from primaite.simulator.sim_container import Simulation  # noqa: E402


class SimSut:
    """A simulation under test: the Simulation, the current tick and named nodes.

    The harness keeps the simulation in the middle of a step (after ``pre_timestep``), which is where requests are
    applied by ``PrimaiteGame.step``; ``tick()`` finishes the step and opens the next one.
    """

    def __init__(self):
        self.sim = Simulation()
        self.net = self.sim.network
        self.t = 0
        self.nodes: Dict[str, object] = {}
        self.links: Dict[str, object] = {}
        self.extra: Dict = {}

    def start(self):
        self.sim.pre_timestep(self.t)
        return self

    def tick(self):
        self.sim.apply_timestep(self.t)
        self.t += 1
        self.sim.pre_timestep(self.t)

    def req(self, request: List):
        return self.sim.apply_request(list(request))

    def node_req(self, hostname: str, tail: List):
        return self.sim.apply_request(["network", "node", hostname] + list(tail))


def host(kind: str, hostname: str, ip: str, gw: Optional[str] = None, mask: str = "255.255.255.0", on: bool = True, **cfg):
    c = {"type": kind, "hostname": hostname, "ip_address": ip, "subnet_mask": mask, "start_up_duration": 0, "shut_down_duration": 0}
    if gw:
        c["default_gateway"] = gw
    c.update(cfg)
    cls = Computer if kind == "computer" else Server
    n = cls.from_config(c)
    if on:
        n.power_on()
    return n


def switch(hostname: str, num_ports: int = 4, on: bool = True, **cfg):
    c = {"type": "switch", "hostname": hostname, "num_ports": num_ports, "start_up_duration": 0, "shut_down_duration": 0}
    c.update(cfg)
    n = Switch.from_config(c)
    if on:
        n.power_on()
    return n


def router(hostname: str, ports: Dict[int, tuple], on: bool = True, permit_all: bool = True, **cfg):
    c = {"type": "router", "hostname": hostname, "num_ports": max(2, len(ports)), "start_up_duration": 0, "shut_down_duration": 0}
    c.update(cfg)
    n = Router.from_config(c)
    if on:
        n.power_on()
    for p, (ip, mask) in ports.items():
        n.configure_port(port=p, ip_address=ip, subnet_mask=mask)
    if permit_all:
        n.acl.add_rule(action=ACLAction.PERMIT, position=21)
    return n


def connect(s: SimSut, a, pa: int, b, pb: int, bandwidth: float = 100, name: Optional[str] = None):
    link = s.net.connect(endpoint_a=a.network_interface[pa], endpoint_b=b.network_interface[pb], bandwidth=bandwidth)
    s.links[name or "%s:%d-%s:%d" % (a.config.hostname, pa, b.config.hostname, pb)] = link
    for n in (a, b):
        s.nodes[n.config.hostname] = n
    return link


def lan(hosts: Iterable[tuple], bandwidth: float = 100) -> SimSut:
    """T1: one switch, hosts = [(kind, hostname, ip, extra_cfg_dict)]."""
    s = SimSut()
    hosts = list(hosts)
    sw = switch("sw", num_ports=max(2, len(hosts)))
    for i, h in enumerate(hosts):
        kind, name, ip = h[0], h[1], h[2]
        cfg = h[3] if len(h) > 3 else {}
        n = host(kind, name, ip, **cfg)
        connect(s, n, 1, sw, i + 1, bandwidth)
    return s


def routed(client_cfg=None, server_cfg=None, bandwidth: float = 100, router_cfg=None) -> SimSut:
    """T2: client (10.0.1.2) -- r (10.0.1.1 | 10.0.2.1) -- server (10.0.2.2); direct links, no switches."""
    s = SimSut()
    c = host("computer", "client", "10.0.1.2", gw="10.0.1.1", **(client_cfg or {}))
    v = host("server", "server", "10.0.2.2", gw="10.0.2.1", **(server_cfg or {}))
    r = router("r", {1: ("10.0.1.1", "255.255.255.0"), 2: ("10.0.2.1", "255.255.255.0")}, **(router_cfg or {}))
    connect(s, c, 1, r, 1, bandwidth)
    connect(s, v, 1, r, 2, bandwidth)
    r.enable_port(1)
    r.enable_port(2)
    return s


# ----------------------------------------------------------------------------------------------------------
# Canonical state
# ----------------------------------------------------------------------------------------------------------
class Ids:
    """Opaque identifiers (uuids, MACs, connection ids) -> first-occurrence index along a deterministic traversal."""

    def __init__(self):
        self.m = {}

    def __call__(self, x):
        if x is None:
            return None
        x = str(x)
        if x not in self.m:
            self.m[x] = len(self.m)
        return "#%d" % self.m[x]


def fs_canon(fs):
    def cf(f):
        return (f.name, f.deleted, f.health_status.value, f.visible_health_status.value, f.num_access, f.revealed_to_red)

    def cfo(fo):
        return (fo.name, fo.deleted, fo.health_status.value, fo.visible_health_status.value, max(fo.scan_countdown, -1),
                max(fo.restore_countdown, -1), max(fo.red_scan_countdown, -1),
                tuple(cf(f) for f in fo.files.values()), tuple(cf(f) for f in fo.deleted_files.values()))

    return (tuple(cfo(f) for f in fs.folders.values()), tuple(cfo(f) for f in fs.deleted_folders.values()),
            fs.num_file_creations, fs.num_file_deletions)


def software_canon(sw, ids: Ids):
    d = [sw.name, type(sw).__name__, sw.operating_state.value, sw.health_state_actual.value, sw.health_state_visible.value,
         getattr(sw, "_fixing_countdown", None), getattr(sw, "restart_countdown", None), getattr(sw, "install_countdown", None),
         getattr(sw, "num_executions", None), sw.revealed_to_red if hasattr(sw, "revealed_to_red") else None]
    conns = getattr(sw, "_connections", None)
    if isinstance(conns, dict):
        d.append(tuple(sorted(ids(k) for k in conns)))
    return tuple(d)


def nic_canon(nic, ids: Ids):
    return (nic.port_num, nic.enabled, str(getattr(nic, "ip_address", None)),
            tuple(sorted((str(k), repr(v)) for k, v in getattr(nic, "nmne", {}).items())))


def node_canon(n, ids: Optional[Ids] = None):
    ids = ids or Ids()
    arp = n.software_manager.software.get("arp")
    arp_c = ()
    if arp is not None and hasattr(arp, "arp"):
        arp_c = tuple(sorted((str(ip), ids(e.mac_address)) for ip, e in arp.arp.items()))
    parts = [
        n.config.hostname, n.operating_state.value, n.config.start_up_countdown, n.config.shut_down_countdown,
        n.config.is_resetting, n.node_scan_countdown, n.red_scan_countdown,
        tuple(nic_canon(nic, ids) for nic in n.network_interface.values()),
        tuple(software_canon(sw, ids) for sw in n.software_manager.software.values()),
        tuple(sorted(map(str, n.software_manager.port_protocol_mapping))),
        fs_canon(n.file_system), arp_c,
    ]
    mt = getattr(n, "mac_address_table", None)
    if mt is not None:
        parts.append(tuple(sorted((ids(mac), port.port_num) for mac, port in mt.items())))
    usm = n.software_manager.software.get("user-session-manager")
    if usm is not None:
        ls = usm.local_session
        parts.append((ls.user.username if ls else None, tuple(sorted(rs.user.username for rs in usm.remote_sessions.values()))))
    um = n.software_manager.software.get("user-manager")
    if um is not None:
        parts.append(tuple(sorted((u.username, u.password, u.disabled, u.is_admin) for u in um.users.values())))
    return tuple(parts)


def sim_canon(s: SimSut):
    ids = Ids()
    nodes = tuple(node_canon(n, ids) for n in s.net.nodes.values())
    links = tuple((round(l.current_load, 9), l.bandwidth) for l in s.net.links.values())
    return (nodes, links)
