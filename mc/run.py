"""CLI: ./check <ID> [quick|thorough]   |   ./check <ID> --replay <file>

exit 0: property held on everything explored (KNOWN-FINDING lines allowed)
exit 1: at least one violation not listed in known_findings.json (VIOLATION line printed)
exit 2: harness fault (no verdict)
"""
import hashlib
import importlib
import json
import os
import sys
import time
import traceback

from . import common, engine, evidence, findings


def _replay_path(prop, v):
    key = hashlib.sha1(json.dumps([v.get("clause"), v.get("signature"), v.get("adapter"), v.get("params"),
                                   v.get("history"), v.get("event")], sort_keys=True, default=str).encode()).hexdigest()[:12]
    d = os.path.join(common.VERIF_DIR, "replays")
    os.makedirs(d, exist_ok=True)
    return os.path.join(d, "%s-%s.json" % (prop, key))


def main(argv):
    if len(argv) < 1:
        print(__doc__)
        return 2
    prop = argv[0].upper()
    mod = importlib.import_module("mc.checks." + prop.lower())
    is_known, listed = findings.matcher(prop)
    if len(argv) >= 3 and argv[1] == "--replay":
        doc = json.load(open(argv[2]))
        viols = mod.replay(doc)
        same = [v for v in viols if v["clause"] == doc["clause"] and v["signature"] == doc["signature"]]
        engine.close_pool()
        if same:
            print("replayed: %s / %s\n  %s" % (same[0]["clause"], same[0]["signature"], same[0]["detail"]))
            print("VIOLATION property=%s replay=%s" % (prop, argv[2]))
            return 1
        print("replay of %s: no violation of clause %s" % (argv[2], doc["clause"]))
        return 0
    tier = os.environ.get("VERIF_TIER") or (argv[1] if len(argv) > 1 else "quick")
    if len(argv) > 1 and argv[1] in ("quick", "thorough"):
        tier = argv[1]
    t0 = time.time()
    res = mod.run(tier, is_known)
    engine.close_pool()
    wall = time.time() - t0
    viols = res["violations"]
    unknown = [v for v in viols if not is_known(v)]
    known = [v for v in viols if is_known(v)]
    cov = res["coverage"]
    cov["known_finding_hits"] = len(known)
    evidence.write(prop, tier, res.get("level", "model_checking"), cov, res.get("assumptions", []), wall, len(unknown))
    print("%s %s: %s" % (prop, tier, res.get("summary", "")))
    seen_kf = set()
    for v in known:
        k = (v["clause"], v["signature"])
        if k in seen_kf:
            continue
        seen_kf.add(k)
        print("KNOWN-FINDING: property=%s clause=%s %s" % (prop, v["clause"], v["signature"]))
    if unknown:
        # one replay file per distinct (clause, signature), the first (shortest) one found
        done = set()
        for v in unknown:
            k = (v["clause"], v["signature"])
            if k in done:
                continue
            done.add(k)
            path = _replay_path(prop, v)
            doc = dict(v)
            doc["property"] = prop
            with open(path, "w") as f:
                json.dump(doc, f, indent=1, default=str)
            print("  clause=%s signature=%s\n    %s\n    history=%s event=%s" % (
                v["clause"], v["signature"], v["detail"], json.dumps(v.get("history"), default=str), json.dumps(v.get("event"), default=str)))
            print("VIOLATION property=%s replay=%s" % (prop, path))
        return 1
    return 0


if __name__ == "__main__":
    try:
        rc = main(sys.argv[1:])
    except engine.HarnessError as e:
        print("HARNESS-ERROR: %s" % e)
        rc = 2
    except Exception:
        traceback.print_exc()
        print("HARNESS-ERROR: unexpected exception in the checker")
        rc = 2
    sys.stdout.flush()
    os._exit(rc)
