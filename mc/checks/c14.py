"""C14 — visible health changes only by scanning; fixes and scans take their set time.

Explicit-state BFS over real objects.  Scenario ``host``: ONE real Computer inside a real Simulation carrying one
installed service (dns-server), one installed application (database-client, running), the pre-installed system
software, and a folder ``f`` with two files.  Scenario ``db``: a real database server (database-service, its
``database/database.db`` file, ftp-client) plus a real backup server (ftp-server) on one switch, so that the end of a
database fix really downloads the backup and replaces the database file.

Every transition sends one real request through ``Simulation.apply_request`` (or finishes a simulation step) and is
judged by a small shadow record kept by the harness:

(a) the visible health of an item may differ from its value in the previous state only in a transition that
    COMPLETES a scan covering it, and then equals the true health at that moment;
(b) the true health of software and files changes only in a transition that is an explicit event on that item
    (compromise / corrupt / fix / repair / restore / start) or the timed completion of one;
(c) a fix ends (FIXING -> GOOD) on exactly the ``fixing_duration``-th step after the request, a folder scan /
    restore on the folder's ``scan_duration`` / ``restore_duration``-th step, a node scan on the
    ``node_scan_duration``-th step.

The oracle only reads (true, visible) health pairs, request statuses and the node power state: never the
countdown fields of the code under check.  "Visible" is what every item reports in ``describe_state()`` (the state
dictionary observations are built from).  One extra harness (``obs``) additionally builds the real observation classes
(Service/Application/File/FolderObservation with ``*_requires_scan``) and, once per step at the point where
``PrimaiteGame.step`` does it, demands (a) of the health value actually shown to the agent.
"""
from __future__ import annotations

import itertools
import time

from .. import common, engine
from ..engine import violation

common.import_sim()

from .. import harness_sim as hs  # noqa: E402
from primaite.game.agent.observations.file_system_observations import FileObservation, FolderObservation  # noqa: E402
from primaite.game.agent.observations.software_observation import ApplicationObservation, ServiceObservation  # noqa: E402
from primaite.simulator.file_system.file_system_item_abc import FileSystemItemHealthStatus  # noqa: E402
from primaite.simulator.network.hardware.node_operating_state import NodeOperatingState  # noqa: E402
from primaite.simulator.system.software import SoftwareHealthState  # noqa: E402
from primaite.simulator.system.applications.database_client import DatabaseClient  # noqa: E402
from primaite.simulator.system.services.database.database_service import DatabaseService  # noqa: E402
from primaite.simulator.system.services.dns.dns_server import DNSServer  # noqa: E402
from primaite.simulator.system.services.ftp.ftp_server import FTPServer  # noqa: E402

PROP = "C14"
SCENARIOS = {
    "host": {"host": "pc", "svc": "dns-server", "app": "database-client", "folder": "f", "files": ["a.txt", "b.txt"]},
    "db": {"host": "db", "svc": "database-service", "app": None, "folder": "database", "files": ["database.db"]},
}
BACKUP = "bk"

SW_VERBS = ["compromise", "fix", "scan"]
FILE_VERBS = ["corrupt", "scan", "repair", "restore", "fs_restore", "delete"]
FOLDER_VERBS = ["corrupt", "scan", "repair", "restore"]


def _menu(kind):
    """Event menus, simplest first.
    sw: software events; fs: every file/folder event; fst: the timed file-system operations with few other events
    (deeper); all: sw + fs; db: the database scenario; obs: few events, the agent's observations are judged too."""
    files = SCENARIOS["db" if kind == "db" else "host"]["files"]
    m = [("tick",)]
    if kind in ("sw", "all"):
        for which in ("service", "application"):
            for v in SW_VERBS:
                m.append(("sw", which, v))
    if kind in ("fs", "all"):
        for v in FILE_VERBS:
            m.append(("file", files[0], v))
        m.append(("file", files[1], "corrupt"))
        if kind == "fs":
            m.append(("file", files[1], "delete"))
        for v in FOLDER_VERBS:
            m.append(("folder", v))
    if kind == "fst":
        m += [("file", files[0], "corrupt"), ("file", files[0], "scan"), ("file", files[0], "delete"),
              ("folder", "corrupt"), ("folder", "scan"), ("folder", "restore")]
    if kind == "obs":
        m += [("sw", "service", "compromise"), ("sw", "service", "scan"), ("sw", "application", "compromise"),
              ("file", files[0], "corrupt"), ("file", files[0], "scan"), ("folder", "corrupt"), ("folder", "scan"),
              ("os_scan",)]
        return m
    if kind == "db":
        for v in SW_VERBS:
            m.append(("sw", "service", v))
        for v in ("corrupt", "scan", "delete"):
            m.append(("file", files[0], v))
    m.append(("os_scan",))
    m.append(("power", "shutdown"))
    m.append(("power", "startup"))
    if kind == "db":
        m.append(("bkpower", "shutdown"))
        m.append(("bkpower", "startup"))
    return m


# ------------------------------------------------------------------------------------------------ shadow record
class Timer:
    """One timed operation: ``left`` steps (with the node ON) until it is due; ``joined`` = steps-until-due that the
    requests made while it was already running would have had (completion then is tolerated, not demanded)."""

    __slots__ = ("left", "joined", "duration", "restarted")

    def __init__(self, duration, restarted=False):
        self.left = max(duration, 1)
        self.duration = duration
        self.joined = []
        self.restarted = restarted  # started by a request that superseded a pending operation

    def join(self):
        self.joined.append(max(self.duration, 1))

    def advance(self):
        """One step with the node ON. Returns True when the operation is due on this step."""
        self.left -= 1
        self.joined = [j - 1 for j in self.joined]
        return self.left <= 0

    def stem(self, what):
        if self.duration == 0:
            return "%s:duration=0" % what
        return "%s:duration>0:%s" % (what, "rerequested-while-running" if self.joined or self.restarted else "single")

    def key(self):
        return (self.left, tuple(sorted(self.joined)), self.duration, self.restarted)


class Shadow:
    """Timers of the operations the harness has requested.  ``zero_instant`` = convention for a configured duration
    of 0, per operation kind (fscan, frest, nscan, fix_svc, fix_app): True: the operation is complete when the request
    returns; False: after the first following step.  The same dictionary carries ``nscan_restart``: the convention for a
    node os-scan requested again while one is pending (the statement is silent): False: it joins the pending scan
    (original deadline); True: it supersedes it (deadline = node_scan_duration steps after the latest request)."""

    OPS = ("nscan", "fscan", "frest")

    def __init__(self, cfg, zero_instant):
        self.cfg = cfg
        sc = SCENARIOS[cfg["scenario"]]
        self.svc, self.app, self.folder = sc["svc"], sc["app"], sc["folder"]
        self.zero_instant = dict(zero_instant)
        self.fix = {}  # software name -> Timer
        self.op = {k: None for k in self.OPS}  # running node scan / folder scan / folder restore
        self.maybe = {k: [] for k in self.OPS}  # later due steps of joined requests (tolerated completions)
        self.last_cover = {}

    def key(self):
        return (tuple(sorted(self.zero_instant.items())), tuple(sorted((k, t.key()) for k, t in self.fix.items())),
                tuple(self.op[k].key() if self.op[k] else None for k in self.OPS),
                tuple(tuple(sorted(self.maybe[k])) for k in self.OPS))

    # -- one transition --------------------------------------------------------------------------------------
    def step(self, ev, status, before, after):
        """Advance over one observed transition; return the violations of it under this shadow's convention."""
        cfg = self.cfg
        ok = status == "success"
        kind = ev[0]
        label = ev_label(ev)
        allowed = {}      # item -> true-health values the item may newly take in this transition
        must = {}         # item -> (value, clause, signature-stem): a timed completion is due
        cover = {}        # item -> ("now" | "step" | "maybe", clause, signature-stem): a scan covering it completes here
        target = set()    # items the event addresses
        folder_done = []  # (clause, stem): restore due, the folder must have left RESTORING
        early = {}        # item / ("vis",)+item -> (clause, signature) if a change here is an early timed completion
        FOLDER, SVC = self.folder, self.svc
        # files are keyed by object id; a value is (true, visible, live, "folder/name")
        all_live_files = [n for n, x in before["file"].items() if x[2]]
        in_folder = [n for n, x in before["file"].items() if x[3].startswith(FOLDER + "/")]
        live_files = [n for n in in_folder if before["file"][n][2]]
        folder_live = before["folder"].get(FOLDER, (None, None, False))[2]
        free = set()      # files whose true health a due completion may set to anything (database restore)

        def cover_all(how, clause, stem):
            for n in before["sw"]:
                cover.setdefault(("sw", n), (how, clause, stem))
            for fo, (a, v, live) in before["folder"].items():
                if live:
                    cover.setdefault(("folder", fo), (how, clause, stem))
            for n in all_live_files:
                cover.setdefault(("file", n), (how, clause, stem))

        def cover_folder(how, clause, stem):
            if folder_live:
                cover.setdefault(("folder", FOLDER), (how, clause, stem))
                for n in live_files:
                    cover.setdefault(("file", n), (how, clause, stem))

        def restore_complete(how, clause, stem):
            for n in in_folder:
                if before["file"][n][2] and how != "maybe":
                    must[("file", n)] = ("GOOD", clause, stem)
                else:
                    allowed.setdefault(("file", n), set()).add("GOOD")
            if how != "maybe":
                folder_done.append((clause, stem))

        if kind == "sw":
            name = SVC if ev[1] == "service" else self.app
            it = ("sw", name)
            target.add(it)
            verb = ev[2]
            if ok and verb == "scan":
                cover[it] = ("now", "scan_result_equals_true_health", label)
            elif ok and verb == "compromise":
                allowed[it] = {"COMPROMISED"}
                if name in self.fix and after["sw"][name][0] != "FIXING":
                    del self.fix[name]  # the attack superseded the fix
            elif ok and verb == "fix":
                dkey = "fix_svc" if name == SVC else "fix_app"
                if name in self.fix:
                    self.fix[name].join()
                elif cfg[dkey] == 0 and self.zero_instant.get(dkey, False):
                    allowed[it] = {"FIXING", "GOOD"}
                    must[it] = ("GOOD", "fix_duration_exact", "%s.fix:duration=0" % ev[1])
                else:
                    allowed[it] = {"FIXING"}
                    if after["sw"][name][0] == "FIXING":
                        self.fix[name] = Timer(cfg[dkey])
        elif kind == "file":
            cands = [n for n in in_folder if before["file"][n][3] == FOLDER + "/" + ev[1]]
            cands = [n for n in cands if before["file"][n][2]] or cands  # the live file of that name, else the deleted ones
            verb = ev[2]
            for n in cands:
                it = ("file", n)
                target.add(it)
                if ok and verb == "scan":
                    if before["file"][n][2]:
                        cover[it] = ("now", "scan_result_equals_true_health", label)
                elif ok and verb == "corrupt":
                    allowed[it] = {"CORRUPT"}
                elif ok and verb in ("repair", "restore", "fs_restore"):
                    allowed[it] = {"GOOD"}
        elif kind == "folder":
            verb = ev[1]
            target.add(("folder", FOLDER))
            if ok and verb in ("corrupt", "repair"):
                for n in live_files:
                    allowed[("file", n)] = {"CORRUPT" if verb == "corrupt" else "GOOD"}
                    target.add(("file", n))
            elif ok and verb in ("scan", "restore"):
                opn, d = ("fscan", cfg["dscan"]) if verb == "scan" else ("frest", cfg["drest"])
                zi = self.zero_instant.get(opn, False)
                if self.op[opn] is not None:
                    self.op[opn].join()
                elif d == 0 and zi:
                    if verb == "scan":
                        cover_folder("now", "folder_scan_duration_exact", "folder-scan:duration=0")
                    else:
                        restore_complete("now", "folder_restore_duration_exact", "folder-restore:duration=0")
                else:
                    self.op[opn] = Timer(d)
        elif kind == "os_scan":
            if ok:
                if self.op["nscan"] is not None:
                    if self.zero_instant.get("nscan_restart", False):
                        self.op["nscan"] = Timer(cfg["nscan"], restarted=True)
                    else:
                        self.op["nscan"].join()
                elif cfg["nscan"] == 0 and self.zero_instant.get("nscan", False):
                    cover_all("now", "node_scan_duration_exact", "os-scan:duration=0")
                else:
                    self.op["nscan"] = Timer(cfg["nscan"])
        elif kind == "bkpower":
            pass
        elif kind == "power":
            if ok and ev[1] == "startup":
                for n, (a, v) in before["sw"].items():
                    if a == "UNUSED":
                        allowed[("sw", n)] = {"GOOD"}
        elif kind == "tick":
            if after["on"]:
                for name in list(self.fix):
                    t = self.fix[name]
                    which = "service" if name == SVC else "application"
                    if t.advance():
                        must[("sw", name)] = ("GOOD", "fix_duration_exact", t.stem("%s.fix" % which))
                        del self.fix[name]
                        if cfg["scenario"] == "db" and name == SVC:
                            # documented: the end of a database fix restores the database file from the backup
                            free.update(("file", n) for n in in_folder)
                    else:
                        early[("sw", name)] = ("fix_duration_exact", "%s.fix:completed-early" % which)
                due = {}
                for opn in self.OPS:
                    t = self.op[opn]
                    m = [j - 1 for j in self.maybe[opn]]
                    due[opn] = (None, None, any(j <= 0 for j in m))
                    self.maybe[opn] = [j for j in m if j > 0]
                    if t is not None:
                        if t.advance():
                            due[opn] = (t, True, due[opn][2])
                            self.maybe[opn] += [j for j in t.joined if j > 0]
                            self.op[opn] = None
                        else:
                            due[opn] = (t, False, due[opn][2])
                # node scan
                t, isdue, maybe = due["nscan"]
                if t is not None and isdue:
                    cover_all("step", "node_scan_duration_exact", t.stem("os-scan"))
                elif maybe:
                    cover_all("maybe", "node_scan_duration_exact", "os-scan")
                elif t is not None:
                    for k in ("sw", "file"):
                        for n in before[k]:
                            early[("vis", k, n)] = ("node_scan_duration_exact", "os-scan:completed-early")
                # folder scan
                t, isdue, maybe = due["fscan"]
                if t is not None and isdue:
                    cover_folder("step", "folder_scan_duration_exact", t.stem("folder-scan"))
                elif maybe:
                    cover_folder("maybe", "folder_scan_duration_exact", "folder-scan")
                elif t is not None:
                    for n in in_folder:
                        early.setdefault(("vis", "file", n), ("folder_scan_duration_exact", "folder-scan:completed-early"))
                # folder restore
                t, isdue, maybe = due["frest"]
                if t is not None and isdue:
                    restore_complete("step", "folder_restore_duration_exact", t.stem("folder-restore"))
                elif maybe:
                    restore_complete("maybe", "folder_restore_duration_exact", "folder-restore")
                elif t is not None:
                    for n in in_folder:
                        early[("file", n)] = ("folder_restore_duration_exact", "folder-restore:completed-early")
                # a file brought back by a restore that is due in this very step may or may not be seen by a scan
                # that is due in the same step
                if ("folder", FOLDER) in cover:
                    for n in in_folder:
                        if not before["file"][n][2] and after["file"].get(n, (0, 0, False))[2]:
                            cover[("file", n)] = ("maybe",) + cover[("folder", FOLDER)][1:]
        else:
            raise ValueError(ev)
        for it in free:
            must.pop(it, None)
            allowed[it] = {"GOOD", "CORRUPT", "COMPROMISED"}
        self.last_cover = cover
        return self._judge(ev, label, before, after, allowed, must, cover, target, folder_done, early)

    # -- compare ---------------------------------------------------------------------------------------------
    def _judge(self, ev, label, before, after, allowed, must, cover, target, folder_done, early):
        v = []
        is_step = ev[0] == "tick"
        missed = {}   # (clause, stem) -> [items that needed an update, items not updated]
        undone = {}   # (clause, stem) -> [texts] timed completions that did not happen
        for kind in ("sw", "file", "folder"):
            for key in _ordered(before[kind], kind):
                it = (kind, key)
                b = before[kind][key]
                a = _after_of(kind, key, b, after, self.folder)
                name = b[3] if kind == "file" else key
                if a is None:
                    continue  # the object was replaced / removed: nothing to compare
                tgt = ":target" if it in target else ""
                # ---- true health (software and files only)
                if kind != "folder":
                    if it in must:
                        want, clause, stem = must[it]
                        if a[0] != want:
                            undone.setdefault((clause, stem), []).append("%s %s true health %s (was %s), expected %s" % (
                                kind, name, a[0], b[0], want))
                    elif a[0] != b[0] and a[0] not in allowed.get(it, ()):
                        if it in early and is_step:
                            clause, sig = early[it]
                            v.append(violation(clause, sig, "%s %s: true health %s -> %s on a step before the operation "
                                               "was due" % (kind, name, b[0], a[0])))
                        else:
                            v.append(violation("true_health_changes_only_by_events", "%s:%s%s:%s->%s" % (label, kind, tgt, b[0], a[0]),
                                               "%s %s: true health %s -> %s in a transition that is neither an event on it nor "
                                               "a due completion" % (kind, name, b[0], a[0])))
                # ---- visible health
                c = cover.get(it)
                if c is None:
                    if a[1] != b[1]:
                        e = early.get(("vis", kind, key)) if is_step else None
                        if e and a[1] in (b[0], a[0]):
                            v.append(violation(e[0], e[1], "%s %s: visible health %s -> %s on a step before the scan was due" % (
                                kind, name, b[1], a[1])))
                        else:
                            v.append(violation("visible_changes_only_on_scan_completion", "%s:%s%s" % (label, kind, tgt),
                                               "%s %s: visible health %s -> %s (true %s -> %s) although no scan covering it "
                                               "completed in this transition" % (kind, name, b[1], a[1], b[0], a[0])))
                    continue
                how, clause, stem = c
                if kind == "folder":
                    continue  # the statement only restricts WHEN a folder's visible health may change
                if how == "now":
                    good = {a[0]}
                elif how == "step":
                    good = {b[0], a[0]}
                else:
                    good = {b[1], b[0], a[0]}
                if clause == "scan_result_equals_true_health":
                    if a[1] not in good:
                        v.append(violation(clause, "%s:%s" % (stem, kind), "%s %s: visible health %s after its scan, true health %s" % (
                            kind, name, a[1], a[0])))
                else:
                    m = missed.setdefault((clause, stem), [[], []])
                    if b[1] not in good or a[1] not in good:
                        m[0].append(it)
                    if a[1] not in good:
                        m[1].append((it, b, a))
        for (clause, stem), (need, bad) in sorted(missed.items()):
            if not bad:
                continue
            if not stem.endswith(":single"):
                # duration 0 / re-requested while running: one defect whatever else happens to refresh some items
                what = "not-updated-at-deadline"
            elif len(bad) == len(need):
                what = "nothing-updated-at-deadline"
            else:
                what = "+".join(sorted({k for (k, n), b, a in bad})) + "-not-updated-at-deadline"
            v.append(violation(clause, "%s:%s" % (stem, what), "; ".join(
                "%s %s visible %s but true %s" % (k, b[3] if k == "file" else n, a[1], a[0]) for (k, n), b, a in bad)))
        for clause, stem in folder_done:
            fo = after["folder"].get(self.folder)
            if fo is not None and fo[0] == "RESTORING":
                undone.setdefault((clause, stem), []).append("folder %s still RESTORING" % self.folder)
        for (clause, stem), texts in sorted(undone.items()):
            v.append(violation(clause, stem + ":not-completed-at-deadline", "after the step on which the operation was due: " +
                               "; ".join(texts)))
        # same defect seen on several items of one transition = one report per (clause, signature)
        out, seen = [], set()
        for x in v:
            k = (x["clause"], x["signature"])
            if k not in seen:
                seen.add(k)
                out.append(x)
        return out


def _ordered(d, kind):
    return sorted(d, key=(lambda k: (d[k][3], not d[k][2])) if kind == "file" else None)


def _after_of(kind, key, b, after, folder):
    """The state after the transition of the item that was ``b`` before it."""
    a = after[kind].get(key)
    if kind == "file" and b[2] and b[3].startswith(folder + "/"):
        # in the watched folder what the agent sees is the live file at this path, even if the object behind it was
        # replaced (database restore); elsewhere a replaced file is a new file
        a = next((x for x in after["file"].values() if x[2] and x[3] == b[3]), a)
    return a


def ev_label(ev):
    k = ev[0]
    if k == "sw":
        return "%s.%s" % (ev[1], ev[2])
    if k == "file":
        return "file.%s" % ev[2]
    if k == "folder":
        return "folder.%s" % ev[1]
    if k in ("power", "bkpower"):
        return "%s.%s" % (k, ev[1])
    return k


# ------------------------------------------------------------------------------------------------ adapter
class HealthAdapter(engine.Adapter):
    def __init__(self, menu, fix_svc, fix_app, dscan, drest, nscan, init=()):
        self.init = [tuple(e) for e in init]  # events applied by build(): operations already under way when the search starts
        self.scenario = "db" if menu == "db" else "host"
        self.sc = SCENARIOS[self.scenario]
        self.cfg = {"scenario": self.scenario, "menu": menu, "fix_svc": fix_svc, "fix_app": fix_app, "dscan": dscan,
                    "drest": drest, "nscan": nscan}
        self.name = "c14-%s-fix%d%d-fs%d%d-n%d%s" % (menu, fix_svc, fix_app, dscan, drest, nscan, "-i%d" % len(self.init) if self.init else "")
        self._menu = _menu(menu)

    def params(self):
        return dict(self.cfg, init=[list(e) for e in self.init])

    def build(self):
        c, sc = self.cfg, self.sc
        if self.scenario == "host":
            s = hs.SimSut()
            pc = hs.host("computer", sc["host"], "10.0.0.2", node_scan_duration=c["nscan"])
            s.net.add_node(pc)
            s.nodes[sc["host"]] = pc
            fs = pc.file_system
            fs._default_folder_scan_duration = c["dscan"]
            fs._default_folder_restore_duration = c["drest"]
            pc.software_manager.install(DNSServer, software_config=DNSServer.ConfigSchema(type=sc["svc"], fixing_duration=c["fix_svc"]))
            pc.software_manager.install(DatabaseClient, software_config=DatabaseClient.ConfigSchema(type=sc["app"], fixing_duration=c["fix_app"]))
            pc.software_manager.software[sc["app"]].run()
            for f in sc["files"]:
                fs.create_file(f, folder_name=sc["folder"])
            pass  # configured durations are the oracle's reference; not asserted here
        else:
            s = hs.lan([("server", sc["host"], "10.0.0.2", {"node_scan_duration": c["nscan"]}), ("server", BACKUP, "10.0.0.3")])
            pc = s.nodes[sc["host"]]
            fs = pc.file_system
            fs._default_folder_scan_duration = c["dscan"]
            fs._default_folder_restore_duration = c["drest"]
            s.nodes[BACKUP].software_manager.install(FTPServer)
            pc.software_manager.install(DatabaseService, software_config=DatabaseService.ConfigSchema(
                type=sc["svc"], fixing_duration=c["fix_svc"], backup_server_ip="10.0.0.3"))
            if not pc.software_manager.software[sc["svc"]].backup_database():
                raise engine.HarnessError("initial database backup failed")
        s.pc = pc
        fo = fs.get_folder(sc["folder"])
        pass  # configured durations are the oracle's reference; not asserted here
        pass  # configured durations are the oracle's reference; not asserted here
        pass  # configured durations are the oracle's reference; not asserted here
        s.start()
        zero = [k for k, ck in (("fscan", "dscan"), ("frest", "drest"), ("nscan", "nscan"), ("fix_svc", "fix_svc"),
                                ("fix_app", "fix_app")) if c[ck] == 0]
        zero.append("nscan_restart")  # a repeated os-scan request joins the pending scan (False) or supersedes it (True)
        # first shadow = every zero duration read as "after the first step", repeated os-scan joins; its verdict is the
        # one reported when no convention fits
        s.shadows = [Shadow(c, dict(zip(zero, m))) for m in itertools.product([False, True], repeat=len(zero))]
        if c["menu"] == "obs":
            # the real observation classes, configured so that health must be scanned (…_requires_scan)
            nodes = ["network", "nodes", sc["host"]]
            s.obs = {("sw", sc["svc"]): ServiceObservation(nodes + ["services", sc["svc"]], services_requires_scan=True),
                     ("sw", sc["app"]): ApplicationObservation(nodes + ["applications", sc["app"]], applications_requires_scan=True),
                     ("folder", sc["folder"]): FolderObservation(nodes + ["file_system", "folders", sc["folder"]], files=[], num_files=0,
                                                                 include_num_access=False, file_system_requires_scan=True)}
            for f in sc["files"]:
                s.obs[("file", sc["folder"] + "/" + f)] = FileObservation(
                    nodes + ["file_system", "folders", sc["folder"], "files", f], include_num_access=False,
                    file_system_requires_scan=True)
            s.obs_cov = {}
            state = s.sim.describe_state()
            s.obs_prev = {k: o.observe(state)["health_status"] for k, o in s.obs.items()}
        for ev in self.init:
            self.apply(s, ev)
        return s

    def menu(self, s):
        return self._menu

    def label(self, ev):
        return ev_label(ev)

    # ------------------------------------------------------------------ the real thing
    def _request(self, ev):
        sc = self.sc
        k = ev[0]
        if k == "sw":
            return [ev[1], sc["svc"] if ev[1] == "service" else sc["app"], ev[2]]
        if k == "file":
            if ev[2] == "delete":
                return ["file_system", "delete", "file", sc["folder"], ev[1]]
            if ev[2] == "fs_restore":
                return ["file_system", "restore", "file", sc["folder"], ev[1]]
            return ["file_system", "folder", sc["folder"], "file", ev[1], ev[2]]
        if k == "folder":
            return ["file_system", "folder", sc["folder"], ev[1]]
        if k == "os_scan":
            return ["os", "scan"]
        if k in ("power", "bkpower"):
            return [ev[1]]
        raise ValueError(ev)

    def snap(self, s):
        """(true health, visible health, ...) of every item.  True health is the simulator's own field; visible health is
        what the item reports in describe_state(), which is what agents' observations are built from."""
        pc = s.pc

        def sw_seen(x):
            return SoftwareHealthState(x.describe_state()["health_state_visible"]).name

        def fs_seen(x):
            return FileSystemItemHealthStatus(x.describe_state()["visible_status"]).name

        sw = {n: (x.health_state_actual.name, sw_seen(x)) for n, x in pc.software_manager.software.items()}
        for x in list(pc.services.values()) + list(pc.applications.values()) + list(pc.processes.values()):
            if x.name not in sw:
                sw[x.name] = (x.health_state_actual.name, sw_seen(x))
        files, folders = {}, {}
        fs = pc.file_system
        for flive, d in ((True, fs.folders), (False, fs.deleted_folders)):
            for fo in d.values():
                fol = flive and not fo.deleted
                folders[fo.name] = (fo.health_status.name, fs_seen(fo), fol)
                for live, dd in ((True, fo.files), (False, fo.deleted_files)):
                    for f in dd.values():
                        if f.uuid not in files:
                            files[f.uuid] = (f.health_status.name, fs_seen(f), fol and live and not f.deleted,
                                             fo.name + "/" + f.name)
        return {"sw": sw, "file": files, "folder": folders, "on": pc.operating_state == NodeOperatingState.ON}

    def apply(self, s, ev):
        before = self.snap(s)
        if ev[0] == "tick":
            if self.cfg["menu"] == "obs":
                # PrimaiteGame.step reads the state for the agents after apply_timestep, before the next pre_timestep
                s.sim.apply_timestep(s.t)
                s.obs_state = s.sim.describe_state()
                s.t += 1
                s.sim.pre_timestep(s.t)
            else:
                s.tick()
            status = "tick"
        else:
            resp = s.node_req(BACKUP if ev[0] == "bkpower" else self.sc["host"], self._request(ev))
            status = getattr(resp, "status", repr(resp))
        after = self.snap(s)
        results = [(sh, sh.step(ev, status, before, after)) for sh in s.shadows]
        alive = [sh for sh, v in results if not v]
        viols = []
        if alive:
            s.shadows = alive
        else:
            # no convention fits: report what every convention objects to (else the first shadow's verdict)
            common = set.intersection(*[{(x["clause"], x["signature"]) for x in v} for sh, v in results])
            viols = [x for x in results[0][1] if (x["clause"], x["signature"]) in common] or results[0][1]
        if self.cfg["menu"] == "obs" and not viols:
            viols = self._judge_observations(s, ev, before, after)
        tags = []
        for kind in ("sw", "file", "folder"):
            for n, b in before[kind].items():
                a = _after_of(kind, n, b, after, self.sc["folder"]) or b
                if a[0] != b[0]:
                    tags.append("true:%s:%s>%s" % (kind, b[0], a[0]))
                if a[1] != b[1]:
                    tags.append("seen:%s:%s>%s" % (kind, b[1], a[1]))
        return [status] + sorted(set(tags)), viols

    def _judge_observations(self, s, ev, before, after):
        """What the agent is shown (one observation per step, through the real observation classes) may differ from what
        it was shown after the previous step only if a scan covering the item completed in between, and software / files
        are then shown with the simulator's visible health."""
        for (kind, key), (how, clause, stem) in s.shadows[0].last_cover.items():
            item = (kind, before["file"][key][3] if kind == "file" else key)
            if item in s.obs and (how != "maybe" or item not in s.obs_cov):
                s.obs_cov[item] = how
        if ev[0] != "tick":
            return []
        v = []
        state = s.obs_state
        seen_now = {("sw", n): SoftwareHealthState[x[1]].value for n, x in after["sw"].items()}
        seen_now.update({("file", x[3]): FileSystemItemHealthStatus[x[1]].value for x in after["file"].values() if x[2]})
        for item in sorted(s.obs):
            ob = s.obs[item]
            now = ob.observe(state)["health_status"]
            prev = s.obs_prev[item]
            how = s.obs_cov.get(item)
            cls = type(ob).__name__
            if now != prev and how is None:
                v.append(violation("observed_health_changes_only_on_scan_completion", "%s:changed-without-scan" % cls,
                                   "%s %s: the agent was shown health %s after the previous step and %s after this one, no "
                                   "scan covering it completed in between" % (item[0], item[1], prev, now)))
            elif how in ("now", "step") and item[0] != "folder" and now != seen_now.get(item, now):
                v.append(violation("observed_health_equals_scan_result", "%s:not-updated-by-scan" % cls,
                                   "%s %s: a scan completed in this step, the agent is shown %s, the simulator's visible "
                                   "health is %s" % (item[0], item[1], now, seen_now.get(item))))
            s.obs_prev[item] = now
        s.obs_cov = {}
        return v

    def check_initial(self, s):
        v = []
        pc = s.pc
        reach = {x.name for x in list(pc.services.values()) + list(pc.applications.values()) + list(pc.processes.values())}
        for n in pc.software_manager.software:
            if n not in reach:
                v.append(violation("node_scan_covers_all_software", "software-not-in-node-collections",
                                   "%s is installed but is in none of node.services/applications/processes" % n))
        return v

    def canon(self, s):
        pc = s.pc

        def cf(f):
            return (f.name, f.deleted, f.health_status.value, f.visible_health_status.value)

        def cfo(fo, named=True):
            return (fo.name if named else None, fo.deleted, fo.health_status.value, fo.visible_health_status.value,
                    max(fo.scan_countdown, -1), max(fo.restore_countdown, -1), tuple(sorted(cf(f) for f in fo.files.values())),
                    tuple(sorted(cf(f) for f in fo.deleted_files.values())))

        def cfs(fs, named=True):
            return (tuple(sorted(cfo(fo, named) for fo in fs.folders.values())),
                    tuple(sorted(cfo(fo, named) for fo in fs.deleted_folders.values())))

        sw = tuple((n, x.operating_state.value, x.health_state_actual.value, x.health_state_visible.value, x._fixing_countdown)
                   for n, x in sorted(pc.software_manager.software.items()))
        c = (pc.operating_state.value, pc.node_scan_countdown, pc.config.start_up_countdown, pc.config.shut_down_countdown, sw,
             cfs(pc.file_system), tuple(sh.key() for sh in s.shadows))
        if self.cfg["menu"] == "obs":
            c += (tuple(sorted(s.obs_prev.items())), tuple(sorted(s.obs_cov.items())),
                  tuple(sorted((k, repr(getattr(o, "cached_obs", None))) for k, o in s.obs.items())))
        if self.scenario == "db":
            bk = s.nodes[BACKUP]
            # the backup server's folder is named after a random uuid: names left out; step 1 is special (automatic backup)
            c += (bk.operating_state.value, cfs(bk.file_system, named=False), min(s.t, 2),
                  tuple(sorted((n, x.operating_state.value) for n, x in bk.software_manager.software.items())))
        return c


# ------------------------------------------------------------------------------------------------ fix timing, every class
class FixAdapter(engine.Adapter):
    """One instance of ONE software class of the run-time registries (c13.catalog) on a real Computer.  Events: the fix
    request, an attack (health set to COMPROMISED), every lifecycle request of the class, node shutdown/start-up, step.
    Oracle (clause (c) for software): a fix accepted in step t keeps the software FIXING until the ``fixing_duration``-th
    following step of a node that is ON and returns it to GOOD exactly then - whatever its operating state does meanwhile."""

    def __init__(self, sw_name, duration, init=()):
        from . import c13

        self.c13 = c13
        self.sw = sw_name
        self.d = duration
        self.init = [tuple(e) for e in init]
        self.kind = c13.catalog()["items"][sw_name]["kind"]
        self.name = "c14-fixall-%s-d%d%s" % (sw_name, duration, "-i%d" % len(self.init) if self.init else "")
        verbs = [v for v in (c13.SVC_VERBS if self.kind == "service" else c13.APP_VERBS) if v not in ("fix", "scan")]
        self._menu = [("tick",), ("req", "fix"), ("attack",)] + [("req", v) for v in verbs] + [("power",)]

    def params(self):
        return {"fixall": True, "software": self.sw, "duration": self.d, "init": [list(e) for e in self.init]}

    def build(self):
        c13 = self.c13
        s = c13._mk_host_pair()
        sm = s.host.software_manager
        if self.sw not in sm.software:
            sm.install(c13.catalog()["items"][self.sw]["cls"])
            if self.kind == "application":
                sm.software[self.sw].run()
        s.item = sm.software[self.sw]
        s.item.config.fixing_duration = self.d
        s.left = None  # steps (node ON) until the accepted fix is due
        s.start()
        for ev in self.init:
            self.apply(s, ev)
        return s

    def menu(self, s):
        return self._menu

    def label(self, ev):
        return ev[0] if ev[0] != "req" else "req:" + ev[1]

    def canon(self, s):
        x = s.item
        return (x.operating_state.name, x.health_state_actual.name, s.left, s.host.operating_state.name,
                getattr(x, "restart_countdown", None), getattr(x, "install_countdown", None))

    def apply(self, s, ev):
        x = s.item
        before = x.health_state_actual.name
        on = s.host.operating_state.name == "ON"
        viols = []
        sig = "%s:%s" % (self.kind, self.sw)
        if ev[0] == "tick":
            s.tick()
            out = "tick"
            after = x.health_state_actual.name
            if s.left is not None and on:
                s.left -= 1
                if s.left <= 0:
                    s.left = None
                    if after != "GOOD":
                        viols.append(violation("fix_duration_exact", sig + ":not-completed:%s" % x.operating_state.name,
                                               "%s %s (%s): the fix is due on this step (fixing_duration %d) but health is %s" % (
                                                   self.kind, self.sw, x.operating_state.name, self.d, after)))
                elif after != "FIXING":
                    viols.append(violation("fix_duration_exact", sig + ":completed-early",
                                           "%s %s: health %s with %d steps of the fix left" % (self.kind, self.sw, after, s.left)))
            elif after != before and not (before == "FIXING" and s.left is None and not on):
                viols.append(violation("true_health_changes_only_by_events", sig + ":step",
                                       "%s %s: health %s -> %s in a step with no fix due" % (self.kind, self.sw, before, after)))
        elif ev[0] == "attack":
            ok = x.set_health_state(SoftwareHealthState.COMPROMISED)
            out = "attack:%s" % bool(ok)
            if x.health_state_actual.name != "FIXING":
                s.left = None
        elif ev[0] == "power":
            verb = "shutdown" if on else "startup"
            out = verb + ":" + s.node_req(self.c13.HOST, [verb]).status
        else:
            resp = s.sim.apply_request(self.c13.form_request(self.kind, self.sw, ev[1]))
            out = "%s:%s" % (ev[1], resp.status)
            after = x.health_state_actual.name
            if ev[1] == "fix":
                if resp.status == "success" and after == "FIXING" and s.left is None:
                    s.left = max(self.d, 1)
                elif resp.status == "success" and self.d == 0 and after == "GOOD":
                    s.left = None  # a zero duration may complete with the request
            elif after != before and not (before == "UNUSED" and after == "GOOD"):
                viols.append(violation("true_health_changes_only_by_events", sig + ":" + ev[1],
                                       "%s %s: request %s changed the health %s -> %s" % (self.kind, self.sw, ev[1], before, after)))
        return [out, x.health_state_actual.name], viols


def make_adapter(p):
    if p.get("fixall"):
        return FixAdapter(p["software"], p["duration"], p.get("init", ()))
    return HealthAdapter(p["menu"], p["fix_svc"], p["fix_app"], p["dscan"], p["drest"], p["nscan"], p.get("init", ()))


def replay(doc):
    ad = make_adapter(doc["params"])
    s = ad.build()
    out = list(ad.check_initial(s))
    for ev in doc["history"]:
        ad.apply(s, tuple(ev))
    if doc.get("event") is not None:
        _, v = ad.apply(s, tuple(doc["event"]))
        out += v
    return out


# ------------------------------------------------------------------------------------------------ run
def _plan(tier):
    """(menu, fix_svc, fix_app, dscan, drest, nscan, depth, state budget, time budget s)."""
    if tier == "thorough":
        plan = []
        tb = 600  # per-harness safety net only (checked between levels); the plan is sized for ~20 min on 16 idle cores
        for fs_, fa, n in itertools.product((1, 2), (1, 2), (1, 2)):
            plan.append(("sw", fs_, fa, 1, 1, n, 8, 400000, tb))
        for ds, dr, n in itertools.product((0, 1, 3), (0, 1, 3), (1, 2)):
            plan.append(("fst", 2, 2, ds, dr, n, 7, 400000, tb))
        for ds, dr, n in ((1, 3, 2), (3, 1, 1), (0, 0, 2), (3, 3, 2)):
            plan.append(("fs", 2, 2, ds, dr, n, 6, 400000, tb))
        plan += [("all", 1, 2, 1, 3, 2, 5, 400000, tb), ("all", 2, 1, 3, 1, 1, 5, 400000, tb),
                 ("db", 1, 2, 1, 1, 2, 7, 400000, tb), ("db", 2, 2, 3, 3, 1, 6, 400000, tb),
                 ("sw", 0, 1, 1, 1, 0, 7, 400000, tb), ("sw", 1, 0, 1, 1, 1, 7, 400000, tb),
                 ("obs", 2, 2, 1, 1, 1, 7, 400000, tb), ("obs", 2, 2, 3, 1, 2, 7, 400000, tb)]
        return plan
    return [
        # (time budgets only decide whether a further level is STARTED; generous so that a loaded machine still reaches the depth)
        ("sw", 1, 2, 1, 1, 2, 5, 60000, 120),
        ("sw", 2, 1, 1, 1, 1, 5, 60000, 120),
        ("fs", 2, 2, 1, 3, 2, 4, 60000, 120),
        ("fst", 2, 2, 3, 1, 1, 5, 60000, 120),
        ("fst", 2, 2, 0, 0, 2, 5, 60000, 120),
        ("all", 1, 2, 1, 1, 2, 3, 60000, 120),
        ("db", 1, 2, 1, 1, 1, 4, 60000, 120),
        ("sw", 0, 1, 1, 1, 0, 4, 60000, 120),
        ("obs", 2, 2, 1, 1, 1, 4, 60000, 120),
    ]


WITNESSES = [
    # (menu, history): hand-written executions whose outcomes are recorded in the evidence so that it is visible that
    # scans, fixes and restores really complete inside the explored bounds (they assert nothing)
    ("sw", [("sw", "service", "compromise"), ("sw", "service", "scan"), ("sw", "service", "fix"), ("tick",), ("tick",),
            ("os_scan",), ("tick",), ("tick",)]),
    ("fst", [("file", "a.txt", "corrupt"), ("folder", "scan"), ("tick",), ("tick",), ("tick",), ("folder", "restore"),
             ("tick",), ("os_scan",), ("tick",)]),
    ("db", [("file", "database.db", "scan"), ("file", "database.db", "corrupt"), ("sw", "service", "fix"), ("tick",),
            ("tick",)]),
]


def _witnesses():
    out = []
    for menu, hist in WITNESSES:
        ad = HealthAdapter(menu, 2, 2, 3, 1, 1)
        s = ad.build()
        steps = []
        for ev in hist:
            o, v = ad.apply(s, ev)
            steps.append({"event": list(ev), "outcome": o, "violations": [x["signature"] for x in v]})
        out.append({"adapter": ad.name, "steps": steps})
    return out


def run(tier, is_known):
    t0 = time.time()
    plan = _plan(tier)
    ads = []
    # searches that start while timed operations are under way: a folder scan with a node scan inside its window; a fix that
    # has run one step; a folder restore one step in
    OVERLAP = [("folder", "scan"), ("os_scan",), ("tick",)]
    MIDFIX = [("sw", "service", "fix"), ("sw", "application", "fix"), ("tick",)]
    th = tier == "thorough"
    plan = [p + ((),) for p in plan]
    plan += [("fst", 2, 2, 3, 1, 1, 6 if th else 4, 400000 if th else 60000, 600 if th else 120, OVERLAP),
             ("fst", 2, 2, 4, 2, 2, 6 if th else 4, 400000 if th else 60000, 600 if th else 120, OVERLAP),
             ("sw", 2, 3, 1, 1, 2, 6 if th else 4, 400000 if th else 60000, 600 if th else 120, MIDFIX)]
    for menu, fs_, fa, ds, dr, n, depth, budget, tb, init in plan:
        ad = HealthAdapter(menu, fs_, fa, ds, dr, n, init)
        engine._ADAPTERS[ad.name] = ad  # registered before the pool forks: one pool for all harnesses
        ads.append((ad, depth, budget, tb))
    from . import c13

    for nm in sorted(c13.catalog()["items"]):
        for d in ((1, 2, 3) if tier == "thorough" else (2,)):
            ad = FixAdapter(nm, d)
            engine._ADAPTERS[ad.name] = ad
            ads.append((ad, 6 if tier == "thorough" else 4, 200000, 120 if tier == "thorough" else 60))
        # start state: a fix that has already run one step (what an interrupted fix leaves behind for the next one)
        ad = FixAdapter(nm, 3, init=[("req", "fix"), ("tick",)])
        engine._ADAPTERS[ad.name] = ad
        ads.append((ad, 6 if tier == "thorough" else 4, 200000, 120 if tier == "thorough" else 60))
    viols, per, samples, hist = [], [], [], {}
    tot = {"states": 0, "transitions": 0}
    outcomes = 0
    exhaustive = True
    for ad, depth, budget, tb in ads:
        r = engine.bfs(ad, depth, state_budget=budget, time_budget=tb, is_known=is_known, max_violations=5000)
        viols += r.violations
        tot["states"] += r.states
        tot["transitions"] += r.transitions
        outcomes += len(r.outcomes)
        for k, n in r.hist.items():
            hist[k] = hist.get(k, 0) + n
        samples += r.samples[:1]
        exhaustive = exhaustive and (r.capped is None)
        per.append({"adapter": ad.name, "params": ad.params(), "menu_size": len(ad._menu), "depth_requested": depth,
                    "depth_completed": r.max_depth_completed, "states": r.states, "transitions": r.transitions,
                    "merged_by_canon": r.merged, "pruned_after_violation": r.pruned, "frontier_emptied": r.frontier_emptied,
                    "cap": r.capped, "level_sizes": r.level_sizes, "distinct_outcomes": len(r.outcomes),
                    "determinism_replays": r.determinism_checked})
    cov = {
        "states": tot["states"], "transitions": tot["transitions"],
        "traces_validated_against_impl": tot["transitions"],
        "samples": samples or [{"history": []}],
        "exhaustive": exhaustive,
        "explanation": "every event sequence up to the stated depth over the stated alphabet was executed on a real Computer "
                       "inside a real Simulation (states de-duplicated by canonical form incl. the shadow timers); after every "
                       "transition the (true, visible) health of every software item, file and folder of the host was compared "
                       "with the previous state under the shadow record",
        "harnesses": per, "event_histogram": hist, "distinct_outcomes": outcomes, "witness_runs": _witnesses(),
    }
    return {
        "violations": viols, "coverage": cov, "level": "model_checking",
        "assumptions": ASSUMPTIONS,
        "summary": "states=%d transitions=%d harnesses=%d distinct_outcomes=%d wall=%.0fs" % (
            tot["states"], tot["transitions"], len(per), outcomes, time.time() - t0),
    }


ASSUMPTIONS = [
    "one host, power durations 0 (power timing is C12); software under events: one service (dns-server) and one application "
    "(database-client); the pre-installed system software, folder root, folder f and files a.txt/b.txt are all watched",
    "timing convention (docs common_configuration.rst 'number of timesteps the software will remain in a FIXING state', and the "
    "code): an operation of duration d >= 1 requested during step t is complete after the d-th following apply_timestep",
    "a configured duration of 0 is accepted either as 'complete when the request returns' or as 'complete after the first "
    "following step' (the check only reports when neither holds)",
    "timers only advance on steps during which the node is ON (a powered-off node neither fixes nor scans; the countdown "
    "resumes after start-up); this follows Node.apply_timestep and is not contradicted by the documentation",
    "a request repeated while the same operation is already running joins it: the running operation must still complete "
    "at its original due step; a further completion at the later due step is tolerated; for the node os-scan (statement "
    "silent) the repeated request may alternatively supersede the pending scan (deadline = node_scan_duration steps after "
    "the latest request) - a violation is reported only if neither convention fits",
    "a successful compromise during a fix supersedes the fix (no completion is then demanded)",
    "software and single-file scan requests complete immediately (Software.scan / File.scan), folder scan after "
    "scan_duration, node scan after node_scan_duration and covers all software, live folders and live files",
    "for a folder the statement restricts only WHEN its visible health may change, not the value it then takes; a folder's "
    "true health is not constrained",
    "when a scan and a timed completion fall into the same step the scan may show the health before or after that completion",
    "a deleted file is covered by no scan; a folder restore must return live files to GOOD, deleted files may be returned",
    "database scenario: the end of a database-service fix may set the true health of database/database.db to anything "
    "(documented restore from the backup server) but must leave the visible health of that path unchanged",
    "obs harness: the agent's view is the 'health_status' entry produced by the real observation classes configured with "
    "*_requires_scan=True from Simulation.describe_state() taken after apply_timestep and before the next pre_timestep "
    "(the order in PrimaiteGame.step); the first observation is taken before the first event",
    "HealthAdapter does not explore application install/uninstall, service stop/start/restart requests (FixAdapter does, for the fix "
    "timing of every registry class), OVERWHELMED (connection limit), "
    "attacks delivered over the network (data-manipulation / ransomware / DoS), folder delete, power durations > 0",
]
