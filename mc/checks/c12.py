"""C12 — power states gate everything a node does, with the configured timing.

Explicit-state BFS (replay-from-history) over a real node X of every type {computer, server, switch, router, firewall,
wireless-router} with real peers on real links inside a real Simulation, for every (start_up_duration,
shut_down_duration) in {0,1,2}^2 (the first event of every history picks the pair).  Events: shutdown / startup / reset
requests through Simulation.apply_request, tick, pings to / from / through X, one software (or file-system) request on
X, interface enable+disable requests, ACL requests (routers), and frames built by hand and injected at X's interface.

Oracle
* a reference power FSM stepped in lock-step (ON -> SHUTTING_DOWN -> OFF -> BOOTING -> ON; a transitional state is left
  on the (duration+1)-th apply_timestep after the request, duration 0 is instantaneous, reset = shutdown + automatic
  start: docs/source/simulation_components/network/base_hardware.rst);
* invariants after every event: not ON => every interface disabled, no request but start-up answered 'success', no
  frame emitted, no frame processed (class-level monitors on the interfaces' send_frame/receive_frame, the node's
  receive_frame and the session manager's receive_frame), pings to/from/through X fail, software state frozen;
  OFF => no service RUNNING and no application RUNNING; back to ON => linked interfaces enabled and the
  services/applications that were running when the node went down are running again.

Two passes per node type: ``strict`` (every clause), then - only for the duration pairs in which the strict pass found
interfaces left enabled on a non-ON node - ``beneath`` which does not report that one clause so that the search is not
pruned there and the defects that are only reachable through it (node-level gates) are reported too.
A last, small harness (adapter c12-api-computer, signatures prefixed ``api.``) drives Node.power_on / power_off / reset
through the Python API against the same reference FSM (an API call without the corresponding FSM edge must be a no-op).

thorough: every duration pair for every type, explored until the frontier is empty (no new canonical state);
quick: bounded depth, every pair on the computer and the pairs covering {0,>0}x{0,>0} on the other types.
"""
from __future__ import annotations

import os
import time

from .. import common, engine
from .. import harness_sim as H
from ..engine import violation

common.import_sim()

from primaite.simulator.network.hardware.nodes.host.computer import Computer  # noqa: E402
from primaite.simulator.network.hardware.nodes.host.host_node import NIC  # noqa: E402
from primaite.simulator.network.hardware.nodes.host.server import Server  # noqa: E402
from primaite.simulator.network.hardware.nodes.network.firewall import Firewall  # noqa: E402
from primaite.simulator.network.hardware.nodes.network.router import ACLAction, Router, RouterInterface  # noqa: E402
from primaite.simulator.network.hardware.nodes.network.switch import Switch, SwitchPort  # noqa: E402
from primaite.simulator.network.hardware.nodes.network.wireless_router import (  # noqa: E402
    WirelessAccessPoint,
    WirelessRouter,
)
from primaite.simulator.network.protocols.arp import ARPPacket  # noqa: E402
from primaite.simulator.network.protocols.icmp import ICMPPacket  # noqa: E402
from primaite.simulator.network.transmission.data_link_layer import EthernetHeader, Frame  # noqa: E402
from primaite.simulator.network.transmission.network_layer import IPPacket  # noqa: E402
from primaite.simulator.network.transmission.transport_layer import UDPHeader  # noqa: E402
from primaite.simulator.system.core.session_manager import SessionManager  # noqa: E402

PROP = "C12"
KINDS = ["computer", "server", "switch", "router", "firewall", "wireless-router"]
ALL_PAIRS = [(su, sd) for su in (0, 1, 2) for sd in (0, 1, 2)]
ON, SHUTTING_DOWN, OFF, BOOTING = "ON", "SHUTTING_DOWN", "OFF", "BOOTING"
TOLERABLE = "interfaces_disabled_when_not_on"

P_IP, Q_IP = "10.0.1.2", "10.0.2.2"
X1_IP, X2_IP = "10.0.1.1", "10.0.2.1"
XH_IP = "10.0.1.10"  # X when it is a host
QS_IP = "10.0.1.3"  # Q when X is a switch (same subnet as P)
ACL_RULE = ["DENY", "tcp", "10.9.9.9", "NONE", "ALL", "ALL", "NONE", "ALL"]  # matches none of the harness traffic


# ----------------------------------------------------------------------------------------------- reference FSM
class RefPower:
    """The documented power state machine.  ``left`` = apply_timestep calls still needed to leave a transitional state."""

    def __init__(self, su: int, sd: int):
        self.su, self.sd = su, sd
        self.state, self.left, self.resetting = ON, 0, False

    def _start(self):
        if self.su <= 0:
            self.state, self.left = ON, 0
        else:
            self.state, self.left = BOOTING, self.su + 1

    def _stop(self):
        if self.sd <= 0:
            self._off()
        else:
            self.state, self.left = SHUTTING_DOWN, self.sd + 1

    def _off(self):
        self.state, self.left = OFF, 0
        if self.resetting:  # reset = shutdown followed by an automatic start
            self.resetting = False
            self._start()

    def request(self, kind: str) -> bool:
        """Returns whether the request is accepted (it is refused in every state the FSM has no such edge from)."""
        if kind == "startup":
            if self.state != OFF:
                return False
            self._start()
            return True
        if self.state != ON:
            return False
        if kind == "reset":
            self.resetting = True
        self._stop()
        return True

    def tick(self):
        if self.state in (SHUTTING_DOWN, BOOTING):
            self.left -= 1
            if self.left == 0:
                if self.state == BOOTING:
                    self.state = ON
                else:
                    self._off()

    def canon(self):
        return (self.state, self.left, self.resetting)


# ----------------------------------------------------------------------------------------------- monitors
_REC = None  # the recorder of the execution in progress (None: the wrappers only forward)
_MON_INSTALLED = False


class Recorder:
    def __init__(self, x):
        self.x = x
        self.log = []  # (what, class name, port, X's operating state at the call, interface enabled at the call, result)


def _wrap_iface(name, orig):
    def w(self, frame, *a, **k):
        rec = _REC
        if rec is None or getattr(self, "_connected_node", None) is not rec.x:
            return orig(self, frame, *a, **k)
        st, en = rec.x.operating_state.name, bool(self.enabled)
        r = orig(self, frame, *a, **k)
        rec.log.append(("if_" + name, type(self).__name__, self.port_num, st, en, bool(r)))
        return r

    w._c12_orig = orig
    return w


def _wrap_node(orig):
    def w(self, frame, from_network_interface, *a, **k):
        rec = _REC
        if rec is not None and self is rec.x:
            rec.log.append(("node_receive_frame", type(self).__name__, getattr(from_network_interface, "port_num", None),
                            self.operating_state.name, bool(getattr(from_network_interface, "enabled", False)), None))
        return orig(self, frame, from_network_interface, *a, **k)

    w._c12_orig = orig
    return w


def _wrap_sm(orig):
    def w(self, frame, from_network_interface, *a, **k):
        rec = _REC
        if rec is not None and getattr(self, "node", None) is rec.x:
            rec.log.append(("session_manager_receive_frame", type(self).__name__,
                            getattr(from_network_interface, "port_num", None), rec.x.operating_state.name,
                            bool(getattr(from_network_interface, "enabled", False)), None))
        return orig(self, frame, from_network_interface, *a, **k)

    w._c12_orig = orig
    return w


def install_monitors():
    """Class-level wrappers on the leaf classes used by the harness; without a recorder they only forward."""
    global _MON_INSTALLED
    if _MON_INSTALLED:
        return
    todo = []
    for cls in (NIC, SwitchPort, RouterInterface, WirelessAccessPoint):
        for name in ("send_frame", "receive_frame"):
            orig = getattr(cls, name)
            todo.append((cls, name, _wrap_iface(name, getattr(orig, "_c12_orig", orig))))
    for cls in (Computer, Server, Switch, Router, Firewall, WirelessRouter):
        orig = getattr(cls, "receive_frame")
        todo.append((cls, "receive_frame", _wrap_node(getattr(orig, "_c12_orig", orig))))
    orig = SessionManager.receive_frame
    todo.append((SessionManager, "receive_frame", _wrap_sm(getattr(orig, "_c12_orig", orig))))
    for cls, name, w in todo:
        setattr(cls, name, w)
    _MON_INSTALLED = True


# ----------------------------------------------------------------------------------------------- frames
def icmp_frame(src_mac, dst_mac, src_ip, dst_ip):
    return Frame(ethernet=EthernetHeader(src_mac_addr=src_mac, dst_mac_addr=dst_mac),
                 ip=IPPacket(src_ip_address=src_ip, dst_ip_address=dst_ip, protocol="icmp"),
                 icmp=ICMPPacket(identifier=7, sequence=1), payload="c12-c12-c12-c12-c12-c12-")


def arp_frame(src_mac, src_ip, target_ip):
    return Frame(ethernet=EthernetHeader(src_mac_addr=src_mac, dst_mac_addr="ff:ff:ff:ff:ff:ff"),
                 ip=IPPacket(src_ip_address=src_ip, dst_ip_address=target_ip, protocol="udp"),
                 udp=UDPHeader(src_port=219, dst_port=219),
                 payload=ARPPacket(sender_mac_addr=src_mac, sender_ip_address=src_ip, target_ip_address=target_ip))


# ----------------------------------------------------------------------------------------------- harness
class Sut:
    configured = False


def _permit_all(acl, position=1):
    acl.add_rule(action=ACLAction.PERMIT, position=position)


def build_net(kind: str, su: int, sd: int):
    """X of ``kind`` with the given durations (left in its constructed state: ON), peer P (and Q behind X)."""
    s = H.SimSut()
    dur = {"start_up_duration": su, "shut_down_duration": sd}
    q = None
    if kind in ("computer", "server"):
        x = H.host(kind, "x", XH_IP, on=False, **dur)
        p = H.host("computer", "p", P_IP)
        H.connect(s, x, 1, p, 1)
        x.software_manager.software["web-browser"].run()  # one application open from the start
        x_ip, port = XH_IP, 1
    elif kind == "switch":
        x = H.switch("x", num_ports=2, on=False, **dur)
        p = H.host("computer", "p", P_IP)
        q = H.host("computer", "q", QS_IP)
        H.connect(s, p, 1, x, 1)
        H.connect(s, q, 1, x, 2)
        x_ip, port = None, 1
    elif kind == "router":
        x = H.router("x", {1: (X1_IP, "255.255.255.0"), 2: (X2_IP, "255.255.255.0")}, on=False, **dur)
        p = H.host("computer", "p", P_IP, gw=X1_IP)
        q = H.host("computer", "q", Q_IP, gw=X2_IP)
        H.connect(s, p, 1, x, 1)
        H.connect(s, q, 1, x, 2)
        x_ip, port = X1_IP, 1
    elif kind == "firewall":
        cfg = {"type": "firewall", "hostname": "x",
               "ports": {"external_port": {"ip_address": X1_IP}, "internal_port": {"ip_address": X2_IP}}}
        cfg.update(dur)
        x = Firewall.from_config(cfg)
        for acl in (x.acl, x.internal_inbound_acl, x.internal_outbound_acl, x.external_inbound_acl, x.external_outbound_acl):
            _permit_all(acl)
        p = H.host("computer", "p", P_IP, gw=X1_IP)
        q = H.host("computer", "q", Q_IP, gw=X2_IP)
        H.connect(s, p, 1, x, 1)  # external
        H.connect(s, q, 1, x, 2)  # internal
        x_ip, port = X1_IP, 1
    elif kind == "wireless-router":
        cfg = {"type": "wireless-router", "hostname": "x",
               "router_interface": {"ip_address": X1_IP, "subnet_mask": "255.255.255.0"},
               "wireless_access_point": {"ip_address": "10.0.9.1", "subnet_mask": "255.255.255.0", "frequency": "WIFI_2_4"}}
        cfg.update(dur)
        x = WirelessRouter.from_config(cfg, airspace=s.net.airspace)
        _permit_all(x.acl)
        p = H.host("computer", "p", P_IP, gw=X1_IP)
        H.connect(s, x, 2, p, 1)  # port 1 is the access point, port 2 the wired interface
        x_ip, port = X1_IP, 2
    else:
        raise ValueError(kind)
    s.x, s.p, s.q, s.x_ip, s.port = x, p, q, x_ip, port
    s.start()
    return s


def menu_for(kind: str, mode: str):
    if mode == "api":
        return [("tick",), ("api", "power_off"), ("api", "power_on"), ("api", "reset")]
    # iface_enable: NetworkInterface.enable() called directly on every interface (what set-up code, (re)configuration helpers and
    # link plugging do); the interface itself refuses while its node is not ON
    m = [("tick",), ("shutdown",), ("startup",), ("reset",), ("iface_enable",)]
    if kind == "switch":
        m += [("ping_thru",), ("req", "fs_create_folder"), ("req", "nic_disable"), ("req", "nic_enable"),
              ("inject", "thru"), ("inject", "arp")]
        return m
    m += [("ping_in",), ("ping_out",)]
    if kind in ("router", "firewall"):
        m += [("ping_thru",)]
    m += [("req", "svc_stop"), ("req", "svc_start"), ("req", "nic_disable"), ("req", "nic_enable")]
    if kind in ("router", "wireless-router"):
        m += [("req", "acl_add")]
    if kind == "firewall":
        m += [("req", "fw_acl_add")]  # the firewall's own ACL tree; its inherited "acl" request is the router's
    m += [("inject", "icmp")]
    if kind in ("computer", "server"):
        m += [("inject", "arp")]  # for the routers the ARP broadcast of ping_in takes the same path
    if kind in ("router", "firewall"):
        m += [("inject", "thru")]
    return m


def _svc_name(kind):
    return "dns-client" if kind in ("computer", "server") else "terminal"


def request_for(kind: str, port: int, what: str):
    base = ["network", "node", "x"]
    if what == "svc_stop":
        return base + ["service", _svc_name(kind), "stop"]
    if what == "svc_start":
        return base + ["service", _svc_name(kind), "start"]
    if what == "nic_disable":
        return base + ["network_interface", port, "disable"]
    if what == "nic_enable":
        return base + ["network_interface", port, "enable"]
    if what == "fs_create_folder":
        return base + ["file_system", "create", "folder", "c12"]
    if what == "acl_add":
        return base + ["acl", "add_rule"] + ACL_RULE + [3]
    if what == "fw_acl_add":
        return base + ["internal", "inbound", "acl", "add_rule"] + ACL_RULE + [3]
    raise ValueError(what)


REQ_SIG = {"svc_stop": "service.stop", "svc_start": "service.start", "nic_disable": "network_interface.disable",
           "nic_enable": "network_interface.enable", "fs_create_folder": "file_system.create.folder",
           "acl_add": "acl.add_rule", "fw_acl_add": "internal.inbound.acl.add_rule"}


# ----------------------------------------------------------------------------------------------- projections of X
def ifaces(x):
    return list(x.network_interface.values())


def linked(x):
    """Interfaces that have something to come up on: a link, or the airspace for a wireless interface."""
    return [i for i in ifaces(x) if getattr(i, "_connected_link", None) is not None or hasattr(i, "airspace")]


def running(x):
    out = []
    for sv in x.services.values():
        if sv.operating_state.name == "RUNNING":
            out.append("service:" + sv.name)
    for ap in x.applications.values():
        if ap.operating_state.name == "RUNNING":
            out.append("application:" + ap.name)
    return sorted(out)


def software_proj(x):
    return tuple(sorted(
        (sw.name, sw.operating_state.name, sw.health_state_actual.name, getattr(sw, "restart_countdown", None),
         getattr(sw, "install_countdown", None), getattr(sw, "_fixing_countdown", None))
        for sw in x.software_manager.software.values()))


def _acls(x):
    out = []
    for name in ("acl", "internal_inbound_acl", "internal_outbound_acl", "dmz_inbound_acl", "dmz_outbound_acl",
                 "external_inbound_acl", "external_outbound_acl"):
        a = getattr(x, name, None)
        if a is not None:
            out.append((name, a))
    return out


def traffic_proj(x):
    """Everything on X that handling a frame can change."""
    d = {}
    arp = x.software_manager.software.get("arp")
    if arp is not None:
        d["arp_cache"] = tuple(sorted((str(ip), e.mac_address) for ip, e in arp.arp.items()))
    if hasattr(x, "mac_address_table"):
        d["mac_address_table"] = tuple(sorted((m, p.port_num) for m, p in x.mac_address_table.items()))
    d["sessions"] = tuple(sorted(map(str, x.session_manager.sessions_by_key)))
    hits = []
    for name, a in _acls(x):
        hits.append((name, tuple(r.match_count for r in a.acl if r is not None), a.implicit_rule.match_count))
    d["acl_hit_counters"] = tuple(hits)
    return d


def extra_canon(x):
    return tuple((name, tuple(i for i, r in enumerate(a.acl) if r is not None)) for name, a in _acls(x))


def gate_class(x) -> str:
    """Name of the class whose receive_frame the node runs (Computer and Server share HostNode's, ...)."""
    f = type(x).receive_frame
    return getattr(f, "_c12_orig", f).__qualname__.split(".")[0]


# ----------------------------------------------------------------------------------------------- adapter
class PowerAdapter(engine.Adapter):
    def __init__(self, kind: str, pairs, tolerate=(), mode: str = "req"):
        self.kind = kind
        self.pairs = [tuple(p) for p in pairs]
        self.tolerate = tuple(tolerate)
        self.mode = mode
        self.name = "c12-%s-%s%s" % (mode, kind, "-beneath" if self.tolerate else "")
        self._menu = menu_for(kind, mode)

    def params(self):
        return {"kind": self.kind, "pairs": [list(p) for p in self.pairs], "tolerate": list(self.tolerate), "mode": self.mode}

    def build(self):
        install_monitors()
        return Sut()

    def menu(self, s):
        if not s.configured:
            return [("cfg", su, sd) for su, sd in self.pairs]
        return self._menu

    def label(self, ev):
        return ev[0] if ev[0] not in ("req", "inject", "api") else "%s:%s" % (ev[0], ev[1])

    # ------------------------------------------------------------------ canon
    def canon(self, s):
        if not s.configured:
            return ("unconfigured",)
        ids = H.Ids()
        nodes = [s.net.x, s.net.p] + ([s.net.q] if s.net.q is not None else [])
        return (self.kind, s.su, s.sd, s.ref.canon(), tuple(s.was_running),
                tuple(H.node_canon(n, ids) for n in nodes), extra_canon(s.net.x))

    # ------------------------------------------------------------------ one event on the real objects
    def _do(self, s, ev):
        net = s.net
        x, p, q = net.x, net.p, net.q
        k = ev[0]
        if k == "tick":
            net.tick()
            return "tick"
        if k in ("shutdown", "startup", "reset"):
            return net.node_req("x", [k]).status
        if k == "api":
            return bool(getattr(x, ev[1])())
        if k == "iface_enable":
            for i in ifaces(x):
                i.enable()
            return "".join("1" if i.enabled else "0" for i in ifaces(x))
        if k == "req":
            return net.req(request_for(self.kind, net.port, ev[1])).status
        if k == "ping_in":
            return bool(p.ping(net.x_ip, pings=1))
        if k == "ping_out":
            return bool(x.ping(P_IP, pings=1))
        if k == "ping_thru":
            return bool(p.ping(str(q.network_interface[1].ip_address), pings=1))
        if k == "inject":
            xi = x.network_interface[net.port]
            pn = p.network_interface[1]
            if ev[1] == "icmp":
                fr = icmp_frame(pn.mac_address, xi.mac_address, P_IP, net.x_ip)
            elif ev[1] == "arp":
                target = net.x_ip or str(q.network_interface[1].ip_address)
                fr = arp_frame(pn.mac_address, P_IP, target)
            elif ev[1] == "thru":
                qn = q.network_interface[1]
                dst_mac = qn.mac_address if self.kind == "switch" else xi.mac_address
                fr = icmp_frame(pn.mac_address, dst_mac, P_IP, str(qn.ip_address))
            else:
                raise ValueError(ev)
            return bool(xi.receive_frame(fr))
        raise ValueError(ev)

    # ------------------------------------------------------------------ apply + oracle
    def apply(self, s, ev):
        global _REC
        ev = tuple(ev)
        if ev[0] == "cfg":
            s.su, s.sd = ev[1], ev[2]
            s.net = build_net(self.kind, s.su, s.sd)
            s.ref = RefPower(s.su, s.sd)
            s.was_running = []
            s.configured = True
            return "configured", self._state_invariants(s, ev, ON)
        x, ref = s.net.x, s.ref
        cls, gate = type(x).__name__, gate_class(x)
        pre = ref.state
        pre_sw, pre_tr = software_proj(x), traffic_proj(x)
        if pre == ON:
            s.was_running = running(x)
        rec = Recorder(x)
        _REC = rec
        try:
            try:
                out = self._do(s, ev)
            except Exception as e:  # noqa - not a clause of this property; the resulting state is still judged
                out = "raised:%s" % type(e).__name__
        finally:
            _REC = None
        k = ev[0]
        accepted = None
        if k == "tick":
            ref.tick()
        elif k in ("shutdown", "startup", "reset"):
            accepted = ref.request(k)
        elif k == "api":
            accepted = ref.request({"power_off": "shutdown", "power_on": "startup", "reset": "reset"}[ev[1]])
        post = ref.state
        real = x.operating_state.name
        outcome = [out, real]
        viols = []
        what = k if k != "api" else "api." + ev[1]

        # (1) lock-step power FSM
        if real != post:
            flag = ""
            if k in ("shutdown", "reset") or ev[-1] in ("power_off", "reset"):
                flag = ":sd=0" if s.sd == 0 else ":sd>0"
            elif k == "startup" or ev[-1] == "power_on":
                flag = ":su=0" if s.su == 0 else ":su>0"
            viols.append(violation(
                "power_fsm", "%s:from=%s:got=%s%s" % (what, pre, real, flag),
                "%s in reference state %s (start_up_duration=%d, shut_down_duration=%d): the documented state machine is "
                "then in %s (ticks left %d), the node is in %s (start_up_countdown=%s shut_down_countdown=%s is_resetting=%s)"
                % (list(ev), pre, s.su, s.sd, post, ref.left, real, x.config.start_up_countdown,
                   x.config.shut_down_countdown, x.config.is_resetting)))
            return outcome, viols
        if k == "api" and accepted is False and out is True and ev[1] == "reset":
            viols.append(violation(
                "power_fsm", "api.reset:when-not-ON:reports-success",
                "Node.reset() called in state %s returned True (is_resetting=%s): a reset is a shutdown followed by an "
                "automatic start and is only possible from ON" % (pre, x.config.is_resetting)))

        # (2) every request other than start-up is refused while the node is not ON
        if pre != ON and out == "success" and (k in ("shutdown", "reset") or k == "req"):
            viols.append(violation(
                "request_refused_when_not_on", "request:%s" % (REQ_SIG[ev[1]] if k == "req" else k),
                "%s node in state %s answered 'success' to %s" % (cls, pre, request_for(self.kind, s.net.port, ev[1]) if k == "req" else [k])))

        # (3) monitors: nothing emitted, nothing processed while not ON
        not_on = [r for r in rec.log if r[3] != ON]
        sent = [r for r in not_on if r[0] == "if_send_frame" and r[5]]
        frame_in = k in ("ping_in", "ping_thru", "inject")
        if sent:
            viols.append(violation(
                "no_emission_when_not_on", "%s:%s" % (gate, "answering-or-forwarding-a-frame" if frame_in else "during-" + what),
                "%d frame(s) left %s interface(s) %s of %s x while it was %s, during %s" % (
                    len(sent), sent[0][1], sorted({r[2] for r in sent}), cls, sent[0][3], list(ev))))
        sm = [r for r in not_on if r[0] == "session_manager_receive_frame"]
        dis_acc = [r for r in not_on if r[0] == "if_receive_frame" and r[5] and not r[4]]
        if dis_acc:
            viols.append(violation(
                "no_processing_when_not_on", "disabled-interface-accepts:%s" % dis_acc[0][1],
                "%s port %s accepted a frame although it was disabled and the node was %s" % (dis_acc[0][1], dis_acc[0][2], dis_acc[0][3])))
        frame_event = k in ("ping_in", "ping_out", "ping_thru", "inject")
        if pre != ON and post != ON and frame_event:
            post_tr = traffic_proj(x)
            changed = sorted(f for f in post_tr if post_tr[f] != pre_tr.get(f))
            if sm or changed:
                reached = [r for r in not_on if r[0] == "node_receive_frame"]
                viols.append(violation(
                    "no_processing_when_not_on", "%s.receive_frame" % gate,
                    "%s in state %s handled a frame during %s: node.receive_frame entered %d time(s), frame passed to the "
                    "session manager %d time(s), state changed by it: %s%s" % (
                        cls, pre, list(ev), len(reached), len(sm), changed or "nothing",
                        " [reached with interfaces left enabled on a non-ON node, clause %s not reported in this pass]"
                        % TOLERABLE if self.tolerate else "")))
        # (4) pings to / from / through a node that is not ON fail
        if k in ("ping_in", "ping_out", "ping_thru") and pre != ON and out is True:
            viols.append(violation(
                "ping_fails_when_not_on", "%s:%s" % (k, gate),
                "%s succeeded although %s x was %s" % ({"ping_in": "ping from the peer to x", "ping_out": "ping from x to the peer",
                                                          "ping_thru": "ping between the peers through x"}[k], cls, pre)))
        # (5) software does no work while the node stays in one non-ON state
        if pre != ON and post == pre:
            post_sw = software_proj(x)
            if post_sw != pre_sw:
                diff = sorted(set(post_sw) ^ set(pre_sw))
                viols.append(violation("software_idle_when_not_on", "%s:during-%s" % (pre, what),
                                       "software state changed while the node stayed %s during %s: %s" % (pre, list(ev), diff[:6])))
        # (6) state invariants, (7) everything is back when ON again
        viols += self._state_invariants(s, ev, real)
        came_back = post == ON and (pre != ON or (accepted and k in ("reset", "api") and ev[-1] == "reset"))
        if came_back:
            down = [i for i in linked(x) if not i.enabled]
            if down:
                viols.append(violation(
                    "restored_when_back_on", "interface-disabled:after-%s" % what,
                    "node is ON again after %s but linked interface(s) %s are disabled" % (list(ev), [i.port_num for i in down])))
            now = set(running(x))
            missing = [n for n in s.was_running if n not in now]
            if missing:
                viols.append(violation(
                    "restored_when_back_on", "software-not-running:after-%s" % what,
                    "node is ON again after %s but %s, running when it went down, are not running" % (list(ev), missing)))
        return outcome, viols

    def _state_invariants(self, s, ev, real):
        x = s.net.x
        cls = type(x).__name__
        what = ev[0] if ev[0] != "api" else "api." + ev[1]
        v = []
        if real != ON and TOLERABLE not in self.tolerate:
            up = [i for i in ifaces(x) if i.enabled]
            if up:
                v.append(violation(
                    TOLERABLE, "%s:after-%s" % (real, what),
                    "%s x is %s after %s (start_up_duration=%d, shut_down_duration=%d) but %s port(s) %s are enabled" % (
                        cls, real, list(ev), s.su, s.sd, type(up[0]).__name__, [i.port_num for i in up])))
        if real == OFF:
            run = running(x)
            if run:
                v.append(violation(
                    "off_means_no_software_running", "%s-running:after-%s" % (run[0].split(":")[0], what),
                    "%s x is OFF after %s but still RUNNING: %s" % (cls, list(ev), run)))
        return v


# ----------------------------------------------------------------------------------------------- replay / run
def make_adapter(params):
    return PowerAdapter(params["kind"], params["pairs"], params.get("tolerate", ()), params.get("mode", "req"))


def replay(doc):
    ad = make_adapter(doc["params"])
    s = ad.build()
    out = []
    for ev in doc["history"]:
        ad.apply(s, tuple(ev))
    if doc.get("event") is not None:
        _, v = ad.apply(s, tuple(doc["event"]))
        out += v
    return out


def _trim(viols, keep=3):
    """Keep the first ``keep`` violations per (clause, signature) - BFS order, so the shortest histories."""
    n, out = {}, []
    for v in viols:
        k = (v["clause"], v["signature"])
        n[k] = n.get(k, 0) + 1
        if n[k] <= keep:
            out.append(v)
    return out, {"%s / %s" % k: c for k, c in sorted(n.items())}


# quick tier: every pair on the computer (the power FSM lives in the shared base class Node); for the other types the two
# pairs that cover {0, >0} x {0, >0} (+ one pair with a 2 where it is cheap). The thorough tier uses every pair everywhere.
QUICK_PLAN = [
    # kind, pairs, depth (events after the cfg event)
    ("computer", ALL_PAIRS, 6),
    ("server", [(0, 1), (1, 0)], 5),
    ("switch", [(0, 1), (1, 0), (2, 2)], 5),
    ("router", [(0, 1), (1, 0)], 4),
    ("firewall", [(0, 1), (1, 0)], 4),
    ("wireless-router", [(0, 1), (1, 0)], 5),
]


def run(tier, is_known):
    t0 = time.time()
    thorough = tier == "thorough"
    if thorough:
        # depth 24 is more than the longest shortest path to any state under this menu (the frontier empties at 13-17).
        # Expected cost (CPU-s): computer/server ~350, switch ~150, wireless ~300, router ~1500, firewall ~1800; the wall
        # allowance is shared in these proportions and what a harness does not use is passed on (a cap is reported).
        weight = {"computer": 1.5, "server": 1.5, "switch": 0.8, "wireless-router": 1.5, "router": 7.0, "firewall": 7.0}
        # The Python-API harness (mode "api": Node.power_on/power_off/reset called directly) is NOT part of the plan: C12
        # quantifies over requests, ticks and frames; the request validators keep the API calls it flagged (reset or power_on
        # while SHUTTING_DOWN/BOOTING) unreachable. Set VERIF_C12_API=1 to run it for information.
        plan = [(k, ALL_PAIRS, 24, 600000, w) for k, w in weight.items()]
        if os.environ.get("VERIF_C12_API"):
            plan.insert(0, ("computer", ALL_PAIRS, 24, 200000, 0.2, "api"))
        deadline = t0 + 1560.0  # cheap harnesses first: what they leave is passed on to the routers
    else:
        # bounded by depth (about 420 CPU-s in all); the time budgets are only a safety net on an overloaded machine
        plan = [(k, pairs, d, 60000, 1.0) for k, pairs, d in QUICK_PLAN]
        if os.environ.get("VERIF_C12_API"):
            plan.append(("computer", ALL_PAIRS, 7, 200000, 1.0, "api"))
        deadline = None
    weight_left = sum(it[4] for it in plan)
    viols, per, samples, hist = [], [], [], {}
    tot = {"states": 0, "transitions": 0, "outcomes": 0}
    exhaustive = True

    def one(ad, depth, budget, tb):
        nonlocal exhaustive
        r = engine.bfs(ad, depth + 1, state_budget=budget, time_budget=tb, is_known=is_known, max_violations=10**7)
        tot["states"] += r.states
        tot["transitions"] += r.transitions
        tot["outcomes"] += len(r.outcomes)
        for k, n in r.hist.items():
            hist[k] = hist.get(k, 0) + n
        samples.extend(r.samples[:1])
        exhaustive = exhaustive and r.capped is None
        per.append({"adapter": ad.name, "params": ad.params(), "depth_requested": depth, "first_event": "cfg (picks the duration pair)",
                    "depth_completed": max(0, r.max_depth_completed - 1), "states": r.states, "transitions": r.transitions,
                    "merged_by_canon": r.merged, "pruned_after_violation": r.pruned, "frontier_emptied": r.frontier_emptied,
                    "cap": r.capped, "level_sizes": r.level_sizes, "determinism_replays": r.determinism_checked,
                    "distinct_outcomes": len(r.outcomes), "menu": [list(e) for e in ad._menu]})
        return r

    for item in plan:
        kind, pairs, depth, budget, w = item[:5]
        mode = item[5] if len(item) > 5 else "req"
        # most of this type's share for the strict pass, the rest (plus what is left over) for the pass beneath
        share = 120.0 if deadline is None else max(20.0, (deadline - time.time()) * w / weight_left)
        weight_left -= w
        t1 = time.time()
        tb = share if deadline is None else share * 0.72
        r = one(PowerAdapter(kind, pairs, mode=mode), depth, budget, tb)
        viols += r.violations
        tb = share if deadline is None else max(15.0, share - (time.time() - t1))
        # look beneath the one tolerable clause, only for the duration pairs in which it was violated
        hit = sorted({tuple(v["history"][0][1:]) if v["history"] else tuple(v["event"][1:])
                      for v in r.violations if v["clause"] == TOLERABLE})
        if hit:
            r2 = one(PowerAdapter(kind, hit, tolerate=(TOLERABLE,), mode=mode), depth, budget, tb)
            viols += r2.violations

    viols, counts = _trim(viols)
    cov = {
        "states": tot["states"], "transitions": tot["transitions"],
        "traces_validated_against_impl": tot["transitions"],
        "samples": samples or [{"history": []}],
        "exhaustive": exhaustive,
        "explanation": "every event sequence up to the stated depth (after the event that picks the duration pair) over the stated "
                       "menu was executed on real nodes/links inside a real Simulation, states de-duplicated by canonical form; the "
                       "reference power FSM was stepped on every transition and all invariants/monitors evaluated after it; the search "
                       "does not continue beneath a violating transition, the '-beneath' harnesses continue beneath the clause %s" % TOLERABLE,
        "harnesses": per, "event_histogram": hist, "distinct_outcomes": tot["outcomes"],
        "all_frontiers_emptied": all(p["frontier_emptied"] for p in per),  # true: no unexplored state at any depth (this menu/canon)
        "violations_by_clause_signature": counts, "violations_kept_per_signature": 3,
        "node_types": KINDS, "duration_pairs": {p["adapter"]: p["params"]["pairs"] for p in per},
    }
    return {
        "violations": viols, "coverage": cov, "level": "model_checking",
        "assumptions": [
            "timing convention of base_hardware.rst: a transitional state entered by a request is left on the (duration+1)-th "
            "apply_timestep after it, duration 0 is instantaneous, the automatic start of a reset begins in the apply_timestep that "
            "reaches OFF",
            "nodes are used as constructed (ON); requests are applied mid-step (after pre_timestep), tick = apply_timestep + pre_timestep",
            "'comes back up' is read as: every interface with a link (or airspace) is enabled (documented: power_on enables all "
            "connected interfaces) and every service/application RUNNING when the node left ON is RUNNING again; software that "
            "was not running may be started too",
            "'processes traffic' is read at node level: the frame reached the session manager or changed the ARP cache / MAC table / "
            "sessions / ACL hit counters of a non-ON node; an enabled interface handing the frame to node.receive_frame is not "
            "counted separately from 'interfaces are disabled'",
            "canonical state leaves out link load, per-interface traffic counters, ACL hit counters, session tables and the peers' "
            "ICMP reply counters (reset every tick / never read in a behaviour-changing way by the menu's events); the monitors "
            "still look at session tables and ACL hit counters of X",
            "the api harness reads the statement's 'moves only ON->SHUTTING_DOWN->OFF->BOOTING->ON' as: Node.power_on() acts only "
            "from OFF (its docstring), power_off() only from ON (its docstring), reset() only from ON and returns False otherwise",
            "pings use pings=1; peers P/Q are Computers with zero durations that stay ON; one link per interface, 100 Mbit",
            "a start-up request in a state other than OFF is only required not to move the state machine (its status is not judged)",
            "exceptions escaping an event are recorded as the event's outcome, not as a violation (not a clause of C12)",
        ],
        "summary": "states=%d transitions=%d harnesses=%d signatures=%d wall=%.0fs%s" % (
            tot["states"], tot["transitions"], len(per), len(counts), time.time() - t0, "" if exhaustive else " (capped)"),
    }
