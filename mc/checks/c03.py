"""C03 — same scenario, seed and actions give the same trajectory, in any process.

World enumeration: the same programs (scenario, seed, action script, two seeded episodes) are run in every member of a
finite product of environment answers that must not matter -
    interpreter processes with PYTHONHASHSEED in {0,1,2} (thorough {0..7})
  x in-process seams: uuid stream {A,B} x MAC/ICMP-id stream {low digits, high digits} x clock {ticking, frozen at
    microsecond 0} x logging {all off, sys/pcap/agent logs on at DEBUG}
and the per-step digests (nested observation, reward, every agent's action, parameters, request, response status and
data; opaque ids normalised by first occurrence, dict key order ignored, LIST ORDER KEPT) must be identical in all of them.
Re-seeding on reset must reproduce the first episode.
"""
from __future__ import annotations

import itertools
import json
import os
import subprocess
import sys
import time

from .. import common, engine, harness_env as HE
from ..engine import violation

PROP = "C03"

FULL_WORLDS = [dict(uuid_base=u, bits_mode=b, clock_mode=c, logging=l)
               for u, b, c, l in itertools.product((0, 1), ("low", "high"), ("ticking", "frozen0"), (0, 1))]
# pairwise covering subset (every pair of factor values occurs together), used by the quick tier
COVER_WORLDS = [dict(uuid_base=0, bits_mode="low", clock_mode="ticking", logging=0),
                dict(uuid_base=1, bits_mode="high", clock_mode="frozen0", logging=0),
                dict(uuid_base=1, bits_mode="low", clock_mode="ticking", logging=1),
                dict(uuid_base=0, bits_mode="high", clock_mode="ticking", logging=1),
                dict(uuid_base=0, bits_mode="low", clock_mode="frozen0", logging=1),
                dict(uuid_base=1, bits_mode="high", clock_mode="ticking", logging=0)]


def _action_index(scenario, names):
    """Indices of the first action-map entry of each named action type (aimed at an existing target)."""
    if scenario in HE.SHIPPED:
        cfg = HE.load_yaml(HE.SHIPPED[scenario])
    else:
        cfg = HE.gen_scenario([v for v in HE.GEN if v["name"] == scenario.split("+")[0]][0])
    blue = [a for a in cfg["agents"] if a["type"] == "proxy-agent"][0]
    amap = blue["action_space"]["action_map"]
    out = []
    for nm in names:
        cands = [i for i in sorted(amap) if amap[i]["action"] == nm and "ghost" not in str(amap[i].get("options"))]
        # prefer scans of a whole network (several answers whose order must not depend on the process)
        net = [i for i in cands if "/" in str(amap[i].get("options", {}).get("target_ip_address", ""))]
        if net or cands:
            out.append((net or cands)[0])
    return out


def programs(tier):
    P = []
    thorough = tier == "thorough"
    seeds = (0, 1, 2, 3, 4) if thorough else (0, 1)
    plan = [
        ("gen0", 12 if not thorough else 24, ["node-nmap-ping-scan", "node-nmap-port-scan", "node-network-service-recon", "router-acl-add-rule",
                                              "node-shutdown", "node-application-execute"]),
        # observation lists that name an entry twice; ACL rules with listed addresses inside the observed window
        ("gen4", 8 if not thorough else 16, ["router-acl-add-rule", "router-acl-remove-rule"]),
        ("data_manipulation", 14 if not thorough else 40, ["router-acl-addrule", "node-shutdown", "node-file-delete", "router-acl-add-rule"]),
        ("uc7", 34 if not thorough else 40, ["node-shutdown", "router-acl-add-rule"]),  # TAP001 reaches its first scan/recon pair
        ("uc7_tap003", 10 if not thorough else 30, ["node-shutdown"]),
    ]
    for scen, steps, names in plan:
        idx = _action_index(scen, names)
        scripts = [[]] + [[[t, i]] for i in idx for t in ((0, 3) if thorough else (1,))]
        for seed in (seeds[:2] if scen.startswith("uc7") else seeds):  # (UC7 steps cost ten times a GEN step)
            for sc in scripts:
                P.append({"scenario": scen, "seed": seed, "steps": steps, "script": sc, "episodes": 2})
    # episode schedules gone through more than twice by one environment: with the same seed, episode e+n repeats episode e
    for scen, n in (("sched-gen", 2), ("sched_mini", 2)) + ((("sched_placeholders", 4),) if thorough else ()):
        for seed in seeds[:2]:
            P.append({"scenario": scen, "seed": seed, "steps": 5, "script": [[1, 3]], "episodes": 2 * n + 1, "period": n})
    # the scenario configures game.seed and reset() is called with that same value (and with another one)
    for seed in (0, 7):
        P.append({"scenario": "gen0+seed=%d" % seed, "seed": seed, "steps": 10, "script": [], "episodes": 2})
        P.append({"scenario": "gen0+seed=%d" % seed, "seed": seed + 1, "steps": 10, "script": [], "episodes": 2})
    return P


def _spawn(hashseed, progs, worlds, keep=False):
    env = dict(os.environ)
    env["PYTHONHASHSEED"] = str(hashseed)
    env["VERIF_REPO"] = common.REPO
    p = subprocess.Popen([sys.executable, "-W", "ignore", "-m", "mc.c03_world"], cwd=common.VERIF_DIR, env=env,
                         stdin=subprocess.PIPE, stdout=subprocess.PIPE, stderr=subprocess.PIPE, text=True)
    p.stdin.write(json.dumps({"programs": progs, "worlds": worlds, "keep_records": keep}))
    p.stdin.close()
    return p


def _collect(p):
    out = p.stdout.read()
    err = p.stderr.read()
    rc = p.wait()
    if rc != 0 or not out.strip():
        raise engine.HarnessError("world process failed (rc=%s): %s" % (rc, err[-2000:]))
    return json.loads(out)


def _key(prog):
    return json.dumps(prog, sort_keys=True)


def _first_diff(a, b, path=""):
    if type(a) != type(b):
        return path, a, b
    if isinstance(a, dict):
        for k in sorted(set(a) | set(b), key=str):
            if k not in a or k not in b:
                return path + "/" + str(k), a.get(k, "<absent>"), b.get(k, "<absent>")
            d = _first_diff(a[k], b[k], path + "/" + str(k))
            if d:
                return d
        return None
    if isinstance(a, list):
        if len(a) != len(b):
            return path + "/len", len(a), len(b)
        for i, (x, y) in enumerate(zip(a, b)):
            d = _first_diff(x, y, path + "/%d" % i)
            if d:
                return d
        return None
    return None if a == b else (path, a, b)


def _explain(prog, w1, h1, w2, h2):
    """Re-run the two differing worlds keeping the records and locate the first differing leaf."""
    import re
    from .. import envexplore as EE

    r1 = _collect(_spawn(h1, [prog], [w1], keep=True))["results"][0]
    r2 = _collect(_spawn(h2, [prog], [w2], keep=True))["results"][0]
    for t, (a, b) in enumerate(zip(r1["records"], r2["records"])):
        na = json.loads(EE.normalise_ids(json.dumps(a, sort_keys=True, default=str)))
        nb = json.loads(EE.normalise_ids(json.dumps(b, sort_keys=True, default=str)))
        d = _first_diff(na, nb)
        if d:
            return t, re.sub(r"\d+", "N", d[0]), d
    return None, "?", None


def run(tier, is_known):
    t0 = time.time()
    thorough = tier == "thorough"
    hashseeds = list(range(4)) if thorough else [0, 1, 2]
    worlds = FULL_WORLDS if thorough else COVER_WORLDS
    progs = programs(tier)
    # split the programs over processes so that all cores are used: hashseed x chunk
    nchunks = max(1, min(len(progs), common.WORKERS // len(hashseeds) if common.WORKERS >= len(hashseeds) else 1))
    chunks = [progs[i::nchunks] for i in range(nchunks)]
    jobs = [(h, c) for h in hashseeds for c in chunks if c]
    running = []
    results = {}  # prog key -> list of (hashseed, world, digests)
    pending = list(jobs)
    maxpar = common.WORKERS
    while pending or running:
        while pending and len(running) < maxpar:
            h, c = pending.pop(0)
            running.append((h, _spawn(h, c, worlds)))
        h, p = running.pop(0)
        data = _collect(p)
        for r in data["results"]:
            results.setdefault(_key(r["program"]), []).append((h, r["world"], r["digests"]))
    viols = {}
    n_exec = 0
    n_steps = 0
    distinct_traj = set()
    for k, runs in results.items():
        prog = json.loads(k)
        n_exec += len(runs)
        ref_h, ref_w, ref_d = runs[0]
        n_steps += sum(len(d) for _, _, d in runs)
        distinct_traj.add(HE.sha(repr(ref_d)))
        # (a) re-seeding reproduces the episode
        bad = _reseed_diff(prog, ref_d)
        if bad:
            viols.setdefault(("reseed_reproduces_episode", prog["scenario"]), violation(
                "reseed_reproduces_episode", "scenario=%s" % prog["scenario"],
                "program %r: episode %d after reset(seed=%d) differs from episode %d (same scenario, same seed) at step %d (hash seed %s, world %r)" % (
                    prog, bad[1], prog["seed"], bad[0], bad[2], ref_h, ref_w), adapter="c03", params={"program": prog}, history=[], event=None))
        # (b) all worlds agree
        for h, w, d in runs[1:]:
            if d != ref_d:
                t = next((i for i, (x, y) in enumerate(zip(d, ref_d)) if x != y), min(len(d), len(ref_d)))
                factor = "hashseed" if w == ref_w else "+".join(sorted(kk for kk in w if w[kk] != ref_w[kk])) + ("+hashseed" if h != ref_h else "")
                step, leaf, dd = _explain(prog, ref_w, ref_h, w, h)
                sig = "scenario=%s:factor=%s:leaf=%s" % (prog["scenario"], factor, "/".join(leaf.split("/")[:7]))
                viols.setdefault(("same_trajectory_in_every_world", sig), violation(
                    "same_trajectory_in_every_world", sig,
                    "program %r: world (PYTHONHASHSEED=%s, %r) differs from world (PYTHONHASHSEED=%s, %r) at record %s, leaf %s: %r vs %r" % (
                        prog, h, w, ref_h, ref_w, step, dd[0] if dd else "?", dd[1] if dd else "?", dd[2] if dd else "?"),
                    adapter="c03", params={"program": prog, "worlds": [[ref_h, ref_w], [h, w]]}, history=[], event=None))
                break
    cov = {"states": n_exec, "transitions": n_steps, "traces_validated_against_impl": n_steps,
           "samples": [{"program": json.loads(next(iter(results))), "worlds": len(worlds), "hashseeds": hashseeds}],
           "exhaustive": True, "programs": len(progs), "worlds_in_process": len(worlds), "hashseeds": hashseeds,
           "executions": n_exec, "distinct_trajectories": len(distinct_traj),
           "explanation": "every program was executed in every (hash seed x in-process world) and all per-step digest sequences compared; "
                          "quick uses a pairwise-covering set of 6 in-process worlds, thorough the full 16"}
    return {"violations": list(viols.values()), "coverage": cov, "level": "model_checking",
            "assumptions": ["a finite set of hash seeds / identifier streams / clocks is enumerated, not all 2^64",
                            "quick: pairwise-covering subset of the in-process factor product; thorough: the full product"],
            "summary": "programs=%d worlds=%d hashseeds=%d executions=%d steps=%d wall=%.0fs" % (
                len(progs), len(worlds), len(hashseeds), n_exec, n_steps, time.time() - t0)}


def _reseed_diff(prog, d):
    """(episode e, episode e+period, step) of the first difference between an episode and its repetition, or None."""
    E, per = prog.get("episodes", 2), prog.get("period", 1)
    L = len(d) // E
    for e in range(E - per):
        a, b = d[e * L:(e + 1) * L], d[(e + per) * L:(e + per + 1) * L]
        if a != b:
            return e, e + per, next(i for i in range(L) if a[i] != b[i])
    return None


def replay(doc):
    prog = doc["params"]["program"]
    ws = doc["params"].get("worlds")
    if not ws:
        r = _collect(_spawn(0, [prog], [COVER_WORLDS[0]]))["results"][0]["digests"]
        return [] if not _reseed_diff(prog, r) else [violation(doc["clause"], doc["signature"], "still differs")]
    (h1, w1), (h2, w2) = ws
    d1 = _collect(_spawn(h1, [prog], [w1]))["results"][0]["digests"]
    d2 = _collect(_spawn(h2, [prog], [w2]))["results"][0]["digests"]
    return [] if d1 == d2 else [violation(doc["clause"], doc["signature"], "still differs")]
