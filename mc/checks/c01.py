"""C01 — stepping/resetting the environment is total and keeps the episode contract.

Real PrimaiteGymEnv objects, every GEN member and the shipped scenarios:
  * BFS (fork-expanded, canonical-state dedup) over {every blue action index, reset(), reset(seed)};
  * deviation-bounded enumeration: default = action 0 with a reset one step after truncation (so truncation, a step
    beyond it and a second episode lie inside the horizon); deviations = any other action or a reset at any slot.
Oracle: envexplore.StepContractOracle evaluated on every step/reset of every explored execution.
"""
from __future__ import annotations

import os
import time

from .. import common, engine, envexplore as EE, harness_env as HE

PROP = "C01"

CORE = ("node-shutdown", "node-startup", "node-reset", "node-service-stop", "node-service-restart", "node-file-delete",
        "router-acl-add-rule", "router-acl-remove-rule", "firewall-acl-add-rule", "host-nic-disable", "network-port-disable",
        "node-application-install", "node-application-remove", "node-session-remote-login", "node-send-remote-command",
        "node-application-execute", "node-folder-restore", "node-account-change-password")


# action types of which EVERY action-map entry (every target) belongs to a reduced alphabet, not only a representative
ALL_TARGETS = ("node-shutdown", "node-startup")

TAP_INTERFERENCE = ("node-application-remove", "node-shutdown", "node-application-close", "router-acl-add-rule", "firewall-acl-add-rule",
                    "host-nic-disable", "node-service-stop", "node-file-delete", "node-account-change-password",
                    "node-session-remote-logoff", "node-application-install", "node-reset", "node-startup")


class Adapter(EE.EnvAdapter):
    """Default script for deviation mode: do-nothing; one step past truncation, then reset."""

    def default_event(self, s, t):
        if s.steps >= s.max_len + 1:
            return ("reset", None)
        return ("a", self.default_action)


def core_alphabet(cfg_or_path, core=None, all_targets=None):
    core = core or CORE
    return _core_alphabet(cfg_or_path, core, tuple(all_targets or ALL_TARGETS))


def _core_alphabet(cfg_or_path, CORE, ALL_TARGETS=ALL_TARGETS):
    if isinstance(cfg_or_path, str):
        cfg = HE.load_yaml(cfg_or_path) if cfg_or_path.endswith(".yaml") else None
    else:
        cfg = cfg_or_path
    if cfg is None:
        return None
    blue = [a for a in cfg["agents"] if a["type"] == "proxy-agent"][0]
    amap = blue["action_space"]["action_map"]
    seen = set()
    out = []
    for i in sorted(amap):
        name = amap[i]["action"]
        tgt = str(sorted(amap[i].get("options", {}).items()))[:60]
        if name in CORE and (name.startswith(ALL_TARGETS) or (name, "ghost" in tgt) not in seen):
            seen.add((name, "ghost" in tgt))
            out.append(i)
    return out


def scenarios(tier):
    """(name, cfg, mode, params)"""
    S = []
    gens = HE.GEN
    for v in gens:
        cfg = HE.gen_scenario(v)
        S.append((v["name"], cfg, "bfs", dict(depth=2 if tier == "thorough" else 1, budget=60000)))
    dev_members = gens if tier == "thorough" else [gens[0]]
    for v in dev_members:
        cfg = HE.gen_scenario(v)
        # quick: truncation, one step past it, a reset and the first step of episode 2 lie inside the horizon
        S.append((v["name"], cfg, "dev", dict(H=(2 * v["ep_len"] + 4) if tier == "thorough" else v["ep_len"] + 3, k=1)))
    if tier == "thorough":
        for v in (gens[0], gens[2]):
            cfg = HE.gen_scenario(v)
            S.append((v["name"] + "-k2", cfg, "dev", dict(H=v["ep_len"] + 3, k=2, core=True)))
    # sessions opened in the first slots (remote on the gateway, remote on a server, local through the terminal), then idle past
    # the 30-step session time-out, with one deviation anywhere
    for v in ((gens[0], gens[2]) if tier == "thorough" else (gens[0],)):
        vi = dict(v, ep_len=40)
        S.append((v["name"] + "-idle", HE.gen_scenario(vi), "dev", dict(
            H=36, k=1, core=tier != "thorough", variant=vi,
            script_hints=[("node-session-remote-login", "'192.168.10.1'"), ("node-session-remote-login", "'pw1'"),
                          ("node-send-local-command", "'lc'")])))
    S.append(("data_manipulation", HE.SHIPPED["data_manipulation"], "dev", dict(H=24 if tier == "thorough" else 6, k=1, reset_seed=None)))
    S.append(("uc7", HE.SHIPPED["uc7"], "dev", dict(H=12 if tier == "thorough" else 2, k=1, reset_seed=None)))
    # (quick: the insider's first 24 steps - logins, remote commands, password changes - with every blue action at every step)
    S.append(("uc7_tap003", HE.SHIPPED["uc7_tap003"], "dev", dict(
        H=24 if tier == "thorough" else 18, k=1, reset_seed=None, core=tier != "thorough", core_names=TAP_INTERFERENCE,
        all_targets=("node-shutdown", "router-acl-add-rule", "node-account-change-password"))))
    # episode schedules: the default script alternates one step and a reset, long enough to go through every episode of the
    # schedule more than twice (the scheduler loops back when the schedule runs out). lengths: mini 2, placeholders 4, uc7 variants 20
    for name, n_ep in (("sched_mini", 2), ("sched_placeholders", 4), ("sched_uc7_variants", 20)):
        if name == "sched_uc7_variants" and tier != "thorough":
            S.append((name, HE.SHIPPED[name], "dev", dict(H=4, k=0, reset_seed=None, multi_reset=True)))
            continue
        S.append((name, HE.SHIPPED[name], "dev", dict(H=2 * (2 * n_ep + 2), k=1 if tier == "thorough" and n_ep < 20 else 0,
                                                     reset_seed=None, multi_reset=True)))
    # one whole kill chain of the shipped threat actor after blue removed the database client from its host in the first step
    S.append(("uc7-noclient", HE.SHIPPED["uc7"], "dev", dict(H=100, k=0, reset_seed=None,
                                                            script_hints=[("node-application-remove", "database-client")])))
    if tier != "thorough":
        # a power cycle of the threat actor's host at any step of the first 32: refused red actions whose answers the actor parses
        S.append(("uc7-reset", HE.SHIPPED["uc7"], "dev", dict(H=32, k=1, reset_seed=None, core=True, core_names=("node-reset",))))
    if tier == "thorough":
        # a whole threat-actor kill chain with one blue interference at any step (the attack's late stages run code that
        # nothing else reaches)
        for scen in ("uc7", "uc7_tap003"):
            # (one interference in any of the first 36 steps, the run continues to step 110: late stages after early interference)
            S.append((scen + "-long", HE.SHIPPED[scen], "dev", dict(H=110, k=1, reset_seed=None, core=True, core_names=TAP_INTERFERENCE,
                                                                     dev_until=36)))
    return S


def pick(cfg, hints, unique=False):
    """Action-map indices of the first entry matching each (action type, substring of its options) hint (a script may name the
    same entry twice; an alphabet wants each entry once: unique=True)."""
    if isinstance(cfg, str):
        cfg = HE.load_yaml(cfg)
    blue = [a for a in cfg["agents"] if a["type"] == "proxy-agent"][0]
    amap = blue["action_space"]["action_map"]
    out = []
    for nm, hint in hints:
        for i in sorted(amap):
            if amap[i]["action"] == nm and hint in str(amap[i].get("options")) and not (unique and i in out):
                out.append(i)
                break
    return out


def make_adapter(name, cfg, p, oracles):
    ad = Adapter("c01-%s-%s" % (name, "k%d" % p.get("k", 0) if "H" in p else "bfs"), cfg, oracles,
                 init_reset_seed=p.get("reset_seed", 3), alphabet=pick(cfg, p["hints"], unique=True) if p.get("hints") else None,
                 dev_alphabet=core_alphabet(cfg, p.get("core_names"), p.get("all_targets")) if p.get("core") else None,
                 extra_params={"scenario_name": name, "p": {k: v for k, v in p.items()}})
    if p.get("dev_until") is not None:
        ad.dev_until = p["dev_until"]
    if p.get("script_hints"):
        # the default script opens sessions in its first slots and then idles past their time-out
        idx = pick(cfg, p["script_hints"])

        def default_event(s, t, ad=ad, idx=idx):
            if s.steps >= s.max_len + 1:
                return ("reset", None)
            return ("a", idx[t]) if t < len(idx) else ("a", ad.default_action)

        ad.default_event = default_event
    if p.get("multi_reset"):
        # episode-scheduled scenarios: the default script resets after every second step so that several episodes of
        # the schedule are crossed inside a short horizon
        def default_event(s, t, ad=ad):
            if s.steps >= 1:
                return ("reset", None)
            return ("a", 0)

        ad.default_event = default_event
    return ad


def _cfg_for(name, p=None):
    if p and p.get("variant"):
        return HE.gen_scenario(p["variant"])
    if name.endswith("-long"):
        name = name[:-5]
    if name.endswith("-reset"):
        name = name[:-6]
    if name.endswith("-noclient"):
        name = name[:-9]
    if name.endswith("-fs2"):
        name = name[:-4]
    for v in HE.GEN:
        if name == v["name"] or name == v["name"] + "-k2":
            return HE.gen_scenario(v)
    return HE.SHIPPED[name]


def replay(doc, oracles=None):
    p = doc["params"]
    name = p["scenario_name"]
    ad = make_adapter(name, _cfg_for(name, p["p"]), p["p"], oracles or [EE.StepContractOracle()])
    s = ad.build()
    out = list(ad.check_initial(s))
    for ev in doc["history"]:
        ad.apply(s, tuple(ev))
    if doc.get("event") is not None:
        _, v = ad.apply(s, tuple(doc["event"]))
        out += v
    return out


def explore(tier, is_known, oracle_factory, prop, plan=None):
    """Shared by C01/C02/C09/C11: run the exploration plan with the given oracles; returns the result dict."""
    t0 = time.time()
    HE.import_env()
    viols = []
    per = []
    states = trans = execs = 0
    samples = []
    hist = {}
    outcomes = 0
    exhaustive = True
    todo = []
    only = [x for x in os.environ.get("VERIF_ONLY", "").split(",") if x]  # development aid: restrict the plan to named scenarios
    for name, cfg, mode, p in (plan or scenarios(tier)):
        if only and name not in only:
            continue
        try:
            oracles = oracle_factory(cfg)  # oracles that need the scenario they are bound to
        except TypeError:
            oracles = oracle_factory()
        ad = make_adapter(name, cfg, p, oracles)
        ad.name = ad.name.replace("c01-", prop.lower() + "-")
        engine._ADAPTERS[ad.name] = ad  # register everything before the pool is forked: one pool for the whole run
        todo.append((name, cfg, mode, p, ad))
    for name, cfg, mode, p, ad in todo:
        t1 = time.time()
        if mode == "bfs":
            r = engine.bfs(ad, p["depth"], state_budget=p.get("budget", 10**9), time_budget=p.get("time", 10**9), is_known=is_known)
            viols += r.violations
            states += r.states
            trans += r.transitions
            outcomes += len(r.outcomes)
            exhaustive = exhaustive and r.capped is None
            for k, n in r.hist.items():
                hist[k] = hist.get(k, 0) + n
            samples += r.samples[:1]
            per.append({"scenario": name, "mode": "bfs", "depth_completed": r.max_depth_completed, "states": r.states,
                        "transitions": r.transitions, "merged_by_canon": r.merged, "pruned_after_violation": r.pruned,
                        "cap": r.capped, "determinism_replays": r.determinism_checked, "wall_s": round(time.time() - t1, 1)})
        else:
            r = engine.deviations(ad, p["H"], p["k"])
            viols += r.violations
            execs += r.executions
            trans += r.transitions
            states += r.transitions + 1
            outcomes += len(r.outcomes)
            for k, n in r.hist.items():
                hist[k] = hist.get(k, 0) + n
            samples += r.samples[:1]
            per.append({"scenario": name, "mode": "deviations", "horizon": p["H"], "k_completed": p["k"], "executions": r.executions,
                        "transitions": r.transitions, "choice_points": r.choice_points, "wall_s": round(time.time() - t1, 1)})
    viols = EE.drop_foreign(viols)
    cov = {
        "states": states, "transitions": trans, "traces_validated_against_impl": trans, "executions": execs,
        "samples": samples or [{"history": []}], "exhaustive": exhaustive, "harnesses": per, "event_histogram": hist,
        "distinct_outcomes": outcomes, "gen_family_size": len(HE.GEN),
        "explanation": "every explored transition is a real env.step/env.reset on a real PrimaiteGymEnv; BFS levels are complete "
                       "over the whole action map + resets; deviation runs enumerate every single (or double) departure from the default script",
    }
    return {"violations": viols, "coverage": cov, "level": "model_checking",
            "assumptions": ["seeded RNG (config/reset seed): stochastic agents follow one stream per history",
                            "GEN is the explicit 6-member family in mc/harness_env.py; shipped scenarios loaded from the tree under check"],
            "summary": "states=%d transitions=%d executions=%d harnesses=%d wall=%.0fs" % (states, trans, execs, len(per), time.time() - t0)}


def run(tier, is_known):
    return explore(tier, is_known, lambda: [EE.StepContractOracle()], PROP)
