"""C09 — observations faithfully encode the simulation's ground truth.

The C01 exploration (GEN members with scan-gated and true health, NMNE, monitored traffic, file-access counts, user
sessions; shipped data_manipulation) with an independent decoder: every leaf of the blue agent's observation is recomputed
from the observation *configuration* and the live simulator objects (never from describe_state) using the documented
encoding, and compared leaf by leaf after every reset and step.
"""
from __future__ import annotations

import re
import time

from .. import common, engine, envexplore as EE, harness_env as HE
from ..engine import violation
from . import c01

PROP = "C09"


def _bin(count, th):
    low, med, high = th
    if count > high:
        return 3
    if count > med:
        return 2
    if count > low:
        return 1
    return 0


def _th(thresholds, key):
    t = (thresholds or {}).get(key)
    if not t:
        return (0, 5, 10)
    return (t["low"], t["medium"], t["high"])


class Decoder:
    """Expected nested observation of the blue agent, from its config and the live objects."""

    def __init__(self, blue_cfg, thresholds, capture_nmne):
        self.cfg = blue_cfg["observation_space"]
        self.thresholds = thresholds or {}
        self.capture_nmne = capture_nmne
        self.prev_nmne = {}

    def new_episode(self):
        self.prev_nmne = {}

    def expected(self, sim):
        assert self.cfg["type"] == "custom"
        out = {}
        for comp in self.cfg["options"]["components"]:
            t, label, o = comp["type"], comp["label"], comp["options"]
            if t == "nodes":
                out[label] = self._nodes(sim, o)
            elif t == "links":
                out[label] = {i + 1: self._link(sim, ref) for i, ref in enumerate(o["link_references"])}
            elif t == "none":
                out[label] = 0
            else:
                raise NotImplementedError(t)
        return out

    # ------------------------------------------------------------------------------------------------ links
    def _link(self, sim, ref):
        for l in sim.network.links.values():
            a, b = l.endpoint_a, l.endpoint_b
            names = []
            for e in (a, b):
                names.append("%s:eth-%s" % (e.parent.config.hostname, e.port_num))
            if ref in ("%s<->%s" % (names[0], names[1]), "%s<->%s" % (names[1], names[0])):
                if l.current_load == 0:
                    return {"PROTOCOLS": {"ALL": 0}}
                return {"PROTOCOLS": {"ALL": min(int(l.current_load / l.bandwidth * 9) + 1, 10)}}
        return {"PROTOCOLS": {"ALL": 0}}

    # ------------------------------------------------------------------------------------------------ nodes
    def _nodes(self, sim, o):
        out = {}
        for i, h in enumerate(o.get("hosts", [])):
            out["HOST%d" % i] = self._host(sim, h, o)
        for i, r in enumerate(o.get("routers", [])):
            out["ROUTER%d" % i] = self._router(sim, r, o)
        for i, f in enumerate(o.get("firewalls", [])):
            out["FIREWALL%d" % i] = self._firewall(sim, f, o)
        return out

    def _opt(self, h, o, key, default=None):
        v = h.get(key)
        if v is None:
            v = o.get(key)
        return default if v is None else v

    def _users(self, node):
        usm = node.software_manager.software.get("user-session-manager")
        if usm is None:
            return {"local_login": 0, "remote_sessions": 0}
        return {"local_login": 1 if usm.local_session else 0, "remote_sessions": min(3, len(usm.remote_sessions))}

    def _host(self, sim, h, o):
        node = sim.network.get_node_by_hostname(h["hostname"])
        ns, na, nf, nfi, nn = (self._opt(h, o, k, 0) for k in ("num_services", "num_applications", "num_folders", "num_files", "num_nics"))
        inc_access = bool(self._opt(h, o, "include_num_access", False))
        inc_nmne = bool(self._opt(h, o, "include_nmne", False))
        traffic = self._opt(h, o, "monitored_traffic", None)
        inc_users = self._opt(h, o, "include_users", True)
        fs_scan = self._opt(h, o, "file_system_requires_scan", True)
        sv_scan = self._opt(h, o, "services_requires_scan", True)
        ap_scan = self._opt(h, o, "applications_requires_scan", True)
        on = node is not None and node.operating_state.value == 1
        obs = {"operating_status": node.operating_state.value if node is not None else 0}
        svcs = list(h.get("services", []))[:ns]
        apps = list(h.get("applications", []))[:na]
        folders = list(h.get("folders", []))[:nf]
        if ns:
            obs["SERVICES"] = {}
            for k in range(ns):
                name = svcs[k]["service_name"] if k < len(svcs) else None
                sw = self._software(node, name, "services") if on else None
                obs["SERVICES"][k + 1] = ({"operating_status": 0, "health_status": 0} if sw is None else
                                          {"operating_status": self._svc_state(sw),
                                           "health_status": (sw.health_state_visible if sv_scan else sw.health_state_actual).value})
        if na:
            obs["APPLICATIONS"] = {}
            for k in range(na):
                name = apps[k]["application_name"] if k < len(apps) else None
                sw = self._software(node, name, "applications") if on else None
                obs["APPLICATIONS"][k + 1] = ({"operating_status": 0, "health_status": 0, "num_executions": 0} if sw is None else
                                              {"operating_status": sw.operating_state.value,
                                               "health_status": (sw.health_state_visible if ap_scan else sw.health_state_actual).value,
                                               "num_executions": _bin(sw.num_executions, _th(self.thresholds, "app_executions"))})
        if nf:
            obs["FOLDERS"] = {}
            for k in range(nf):
                fcfg = folders[k] if k < len(folders) else None
                obs["FOLDERS"][k + 1] = self._folder(node if on else None, fcfg, nfi, inc_access, fs_scan)
        if nn:
            obs["NICS"] = {}
            for k in range(nn):
                obs["NICS"][k + 1] = self._nic(node if on else None, h["hostname"], k + 1, inc_nmne, traffic, node)
        if inc_access:
            obs["num_file_creations"] = min(node.file_system.num_file_creations, 3) if on else 0
            obs["num_file_deletions"] = min(node.file_system.num_file_deletions, 3) if on else 0
        if inc_users:
            obs["users"] = self._users(node) if on else {"local_login": 0, "remote_sessions": 0}
        return obs

    @staticmethod
    def _svc_state(sw):
        """Operating state as reported: FTP services deliberately report STOPPED unless they moved data this step
        (FTPServiceABC.describe_state: 'shows as running only if actively transmitting data this timestep')."""
        v = sw.operating_state.value
        if hasattr(sw, "_active") and type(sw).__name__.startswith("FTP") and v == 1 and not sw._active:
            return 2
        return v

    def _software(self, node, name, kind):
        if node is None or name is None:
            return None
        sw = node.software_manager.software.get(name)
        if sw is None:
            return None
        reg = node.services if kind == "services" else node.applications
        return sw if any(x is sw for x in reg.values()) else None

    def _folder(self, node, fcfg, nfi, inc_access, fs_scan):
        files_cfg = list(fcfg.get("files", []))[:nfi] if fcfg else []
        folder = node.file_system.get_folder(fcfg["folder_name"]) if (node is not None and fcfg) else None
        d = {"health_status": 0 if folder is None else (folder.visible_health_status if fs_scan else folder.health_status).value}
        if nfi:
            d["FILES"] = {}
            for j in range(nfi):
                f = None
                if folder is not None and j < len(files_cfg):
                    f = folder.get_file(files_cfg[j]["file_name"])
                fd = {"health_status": 0 if f is None else (f.visible_health_status if fs_scan else f.health_status).value}
                if inc_access:
                    fd["num_access"] = 0 if f is None else _bin(f.num_access, _th(self.thresholds, "file_access"))
                d["FILES"][j + 1] = fd
        return d

    def _nic(self, node, hostname, num, inc_nmne, traffic, real_node):
        nic = node.network_interface.get(num) if node is not None else None
        d = {"nic_status": 0 if nic is None else (1 if nic.enabled else 2)}
        if traffic:
            tr = {}
            for proto, ports in traffic.items():
                p = str(proto).lower()
                if p == "icmp":
                    tr["icmp"] = {"inbound": self._tbin(nic, "icmp", None, "inbound"), "outbound": self._tbin(nic, "icmp", None, "outbound")}
                else:
                    tr[p] = {}
                    for port in ports:
                        from primaite.utils.validation.port import PORT_LOOKUP

                        pn = PORT_LOOKUP[port] if isinstance(port, str) else port
                        tr[p][pn] = {"inbound": self._tbin(nic, p, pn, "inbound"), "outbound": self._tbin(nic, p, pn, "outbound")}
            d["TRAFFIC"] = tr
        if inc_nmne:
            key = (hostname, num)
            if nic is None or not self.capture_nmne:
                # absent / off: default zeros; the shadow counter is not advanced (the implementation does not look either)
                if self.capture_nmne or nic is None:
                    d["NMNE"] = {"inbound": 0, "outbound": 0}
                else:
                    d["NMNE"] = {"inbound": 0, "outbound": 0}
            else:
                cur = self._nmne_counts(nic)
                prev = self.prev_nmne.get(key, (0, 0))
                d["NMNE"] = {"inbound": _bin(cur[0] - prev[0], _th(self.thresholds, "nmne")),
                             "outbound": _bin(cur[1] - prev[1], _th(self.thresholds, "nmne"))}
                self.prev_nmne[key] = cur
        return d

    @staticmethod
    def _nmne_counts(nic):
        n = getattr(nic, "nmne", {}) or {}
        dd = n.get("direction", {})
        return (dd.get("inbound", {}).get("keywords", {}).get("*", 0), dd.get("outbound", {}).get("keywords", {}).get("*", 0))

    @staticmethod
    def _tbin(nic, proto, port, direction):
        if nic is None:
            return 0
        t = nic.traffic.get(proto) if hasattr(nic, "traffic") else None
        if not t:
            return 0
        if proto == "icmp":
            v = t.get(direction, 0)
        else:
            v = (t.get(port) or {}).get(direction, 0)
        if v == 0:
            return 0
        return min(int(v / nic.speed * 9) + 1, 10)

    # ------------------------------------------------------------------------------------------------ routers
    def _acl(self, acl, o, num_rules):
        from primaite.utils.validation.port import PORT_LOOKUP
        from primaite.utils.validation.ip_protocol import PROTOCOL_LOOKUP

        ip_id = {str(p): i + 2 for i, p in enumerate(o["ip_list"])}
        wc_id = {str(p): i + 2 for i, p in enumerate(o["wildcard_list"])}
        port_id = {(PORT_LOOKUP[p] if isinstance(p, str) else p): i + 2 for i, p in enumerate(o["port_list"])}
        proto_id = {(PROTOCOL_LOOKUP[p] if p in PROTOCOL_LOOKUP else p): i + 2 for i, p in enumerate(o["protocol_list"])}
        out = {}
        for i in range(num_rules):
            r = acl.acl[i] if acl is not None and i < len(acl.acl) else None
            if r is None:
                out[i] = dict(position=i, permission=0, source_ip_id=0, source_wildcard_id=0, source_port_id=0, dest_ip_id=0,
                              dest_wildcard_id=0, dest_port_id=0, protocol_id=0)
                continue

            def ipid(x):
                return 1 if x is None else ip_id.get(str(x), 1)

            def wcid(x):
                return 1 if x is None else wc_id.get(str(x), 1)

            def pid(x):
                return 1 if not x else port_id.get(x, 1)

            out[i] = dict(position=i, permission=r.action.value, source_ip_id=ipid(r.src_ip_address),
                          source_wildcard_id=wcid(r.src_wildcard_mask), source_port_id=pid(r.src_port),
                          dest_ip_id=ipid(r.dst_ip_address), dest_wildcard_id=wcid(r.dst_wildcard_mask),
                          dest_port_id=pid(r.dst_port), protocol_id=1 if not r.protocol else proto_id.get(r.protocol, 1))
        return out

    def _router(self, sim, r, o):
        node = sim.network.get_node_by_hostname(r["hostname"])
        on = node is not None and node.operating_state.value == 1
        num_ports = self._opt(r, o, "num_ports", 0)
        num_rules = self._opt(r, o, "num_rules", 0)
        inc_users = self._opt(r, o, "include_users", True)
        obs = {"ACL": self._acl(node.acl if on else None, {k: self._opt(r, o, k) for k in ("ip_list", "wildcard_list", "port_list", "protocol_list")}, num_rules)}
        if num_ports:
            obs["PORTS"] = {}
            # an explicit ``ports`` list names the observed ports slot by slot (surplus entries dropped, missing slots empty);
            # without it the slots are ports 1..num_ports
            listed = [pc["port_id"] for pc in r["ports"]][:num_ports] if r.get("ports") else list(range(1, num_ports + 1))
            for k in range(num_ports):
                p = node.network_interface.get(listed[k]) if on and k < len(listed) else None
                obs["PORTS"][k + 1] = {"operating_status": 0 if p is None else (1 if p.enabled else 2)}
        if inc_users:
            obs["users"] = self._users(node) if on else {"local_login": 0, "remote_sessions": 0}
        return obs

    def _firewall(self, sim, f, o):
        node = sim.network.get_node_by_hostname(f["hostname"])
        on = node is not None and node.operating_state.value == 1
        num_rules = self._opt(f, o, "num_rules", 0)
        inc_users = self._opt(f, o, "include_users", True)
        lists = {k: self._opt(f, o, k) for k in ("ip_list", "wildcard_list", "port_list", "protocol_list")}
        obs = {"PORTS": {}, "ACL": {}}
        for k in (1, 2, 3):
            p = node.network_interface.get(k) if on else None
            obs["PORTS"][k] = {"operating_status": 0 if p is None else (1 if p.enabled else 2)}
        for zone in ("internal", "dmz", "external"):
            obs["ACL"][zone.upper()] = {}
            for direction in ("inbound", "outbound"):
                acl = getattr(node, "%s_%s_acl" % (zone, direction)) if on else None
                obs["ACL"][zone.upper()][direction.upper()] = self._acl(acl, lists, num_rules)
        if inc_users:
            obs["users"] = self._users(node) if on else {"local_login": 0, "remote_sessions": 0}
        return obs


def compare(exp, got, path=""):
    """Yield (leaf path, expected, got) for every differing leaf."""
    if isinstance(exp, dict):
        if not isinstance(got, dict):
            yield path, "dict with keys %r" % sorted(map(str, exp)), got
            return
        for k in exp:
            if k not in got:
                yield path + "/" + str(k), exp[k], "<missing>"
            else:
                yield from compare(exp[k], got[k], path + "/" + str(k))
        for k in got:
            if k not in exp:
                yield path + "/" + str(k), "<absent>", got[k]
    else:
        try:
            same = int(exp) == int(got)
        except Exception:  # noqa
            same = exp == got
        if not same:
            yield path, exp, got


class GroundTruthOracle:
    def __init__(self, cfg):
        self.cfg = cfg

    def _decoder(self, s):
        d = getattr(s, "decoder", None)
        if d is None:
            cfg = self.cfg if not isinstance(self.cfg, str) else HE.load_yaml(self.cfg)
            blue = [a for a in cfg["agents"] if a["type"] == "proxy-agent"][0]
            nm = cfg["simulation"]["network"].get("nmne_config", {})
            d = s.decoder = Decoder(blue, cfg["game"].get("thresholds"), bool(nm.get("capture_nmne", False)))
        return d

    def _check(self, s, where):
        d = self._decoder(s)
        exp = d.expected(s.env.game.simulation)
        got = s.env.agent.observation_manager.current_observation
        v = {}
        for path, e, g in compare(exp, got):
            leaf = re.sub(r"\d+", "N", path)
            v.setdefault(leaf, violation("leaf_equals_ground_truth", leaf,
                                         "%s: leaf %s expected %r (from the live objects), observation holds %r" % (where, path, e, g)))
        return list(v.values())

    def after_build(self, s):
        # the constructor's episode: the observation objects were created with the game
        self._decoder(s).new_episode()
        # two updates happened inside the constructor for episode 0 (from_config); align the NMNE shadow
        self._decoder(s).expected(s.env.game.simulation)
        return []

    def after_reset(self, s, obs, info, old_game):
        self._decoder(s).new_episode()
        # PrimaiteGame.from_config performs one observation update before reset's own: mirror it in the shadow
        self._decoder(s).expected(s.env.game.simulation)
        return self._check(s, "after reset")

    def after_step(self, s, a, result):
        return self._check(s, "after step %d (%s)" % (s.steps, EE.action_name(s, a)))


OBS_CORE = ("node-folder-scan", "node-file-scan", "node-os-scan", "node-service-scan", "node-application-scan",
            "node-file-corrupt", "node-file-delete", "node-shutdown", "node-startup", "node-service-stop", "node-application-remove",
            "node-application-execute", "router-acl-add-rule", "firewall-acl-add-rule", "host-nic-disable", "network-port-disable",
            "node-session-remote-login", "node-folder-restore", "node-service-fix", "node-file-access", "node-file-create")


SCAN_FIRST = ("node-folder-scan", "node-file-scan", "node-os-scan", "node-service-scan", "node-application-scan")


def plan(tier):
    P = []
    g = HE.GEN
    # per-kind scan flags that differ from each other (services gated, applications not, and the reverse)
    mixed1 = dict(g[0], name="c09-mixed-scan-1", scan_svc=True, scan_app=False, scan_fs=True)
    mixed2 = dict(g[2], name="c09-mixed-scan-2", scan_svc=False, scan_app=True, scan_fs=False)
    for v in (mixed1, mixed2):
        P.append((v["name"], HE.gen_scenario(v), "bfs", dict(depth=1, budget=60000, variant=v)))
    # 'scan first' base script: states in which scans have completed are the start of the single deviations
    sf = dict(g[2], name="c09-scan-first", ep_len=16)
    P.append((sf["name"], HE.gen_scenario(sf), "dev", dict(H=12 if tier != "thorough" else 16, k=1, core=True, core_names=OBS_CORE,
                                                            scan_first=True, variant=sf)))
    # sessions on the gateway device (router / firewall) crossed with its power state: login counts of a device that is not on
    GW = [("do-nothing", ""), ("node-session-remote-login", "'192.168.10.1'"), ("node-send-local-command", "'gwdir'"),
          ("node-shutdown", "'router_1'"), ("node-startup", "'router_1'"), ("node-shutdown", "'firewall_1'"),
          ("node-startup", "'firewall_1'"), ("node-session-remote-logoff", "'192.168.10.1'"), ("node-reset", "'firewall_1'")]
    for v in (g[2], g[0]):
        vv = dict(v, name=v["name"] + "-gw-sessions", ep_len=12)
        P.append((vv["name"], HE.gen_scenario(vv), "bfs", dict(depth=4 if tier == "thorough" else 3, budget=60000, hints=GW, variant=vv)))
    members = [g[0], g[1], g[2]] if tier == "thorough" else [g[1], g[2]]
    for v in members:
        cfg = HE.gen_scenario(v)
        P.append((v["name"], cfg, "bfs", dict(depth=2 if tier == "thorough" else 1, budget=60000)))
        P.append((v["name"], cfg, "dev", dict(H=(v["ep_len"] + 5) if tier == "thorough" else v["ep_len"] + 2, k=1,
                                                core=tier != "thorough", core_names=OBS_CORE)))
    if tier == "thorough":
        v = g[2]
        P.append((v["name"] + "-k2", HE.gen_scenario(v), "dev", dict(H=9, k=2, core=True, core_names=OBS_CORE)))
    P.append(("data_manipulation", HE.SHIPPED["data_manipulation"], "dev", dict(H=30 if tier == "thorough" else 8, k=1, reset_seed=None,
                                                                             core=tier != "thorough", core_names=OBS_CORE)))
    return P


_ORIG_MAKE = c01.make_adapter


def _make_adapter(name, cfg, p, oracles):
    ad = _ORIG_MAKE(name, cfg, p, oracles)
    if p.get("scan_first"):
        blue = [a for a in cfg["agents"] if a["type"] == "proxy-agent"][0]
        amap = blue["action_space"]["action_map"]
        want = [("node-folder-scan", "'docs'"), ("node-file-scan", "'a.txt'"), ("node-os-scan", "'backup_server'"),
                ("node-service-scan", "'web_server'"), ("node-application-scan", "'web-browser'"), ("node-folder-scan", "'database'")]
        idx = []
        for nm, hint in want:
            for i in sorted(amap):
                if amap[i]["action"] == nm and hint in str(amap[i].get("options")):
                    idx.append(i)
                    break

        def default_event(s, t, idx=idx):
            # slots 0..n-1: one scan action each (folder, file, os, service, application), then do-nothing
            return ("a", idx[t]) if t < len(idx) else ("a", 0)

        ad.default_event = default_event
    return ad


def _install_scan_first(pl):
    c01.make_adapter = _make_adapter


_VARIANTS = {}


def _cfg_for(name):
    if name in _VARIANTS:
        return HE.gen_scenario(_VARIANTS[name])
    return c01._cfg_for(name)


def replay(doc):
    for n, c, m, p in plan("thorough") + plan("quick"):
        if "variant" in p:
            _VARIANTS[n] = p["variant"]
    name = doc["params"]["scenario_name"]
    cfg = _cfg_for(name)
    _install_scan_first(None)
    ad = c01.make_adapter(name, cfg, doc["params"]["p"], [GroundTruthOracle(cfg)])
    s = ad.build()
    out = list(ad.check_initial(s))
    for ev in doc["history"]:
        ad.apply(s, tuple(ev))
    if doc.get("event") is not None:
        _, v = ad.apply(s, tuple(doc["event"]))
        out += v
    return out


def run(tier, is_known):
    pl = plan(tier)
    cfgs = {name: cfg for name, cfg, _, _ in pl}
    it = iter(pl)

    # one oracle per adapter, bound to that adapter's scenario
    order = [cfg for _, cfg, _, _ in pl]
    idx = {"i": 0}

    def factory(cfg=None):
        if cfg is None:
            cfg = order[idx["i"]]
            idx["i"] += 1
        return [GroundTruthOracle(cfg)]

    _install_scan_first(pl)
    res = c01.explore(tier, is_known, factory, PROP, plan=[(n, c, m, {k: v for k, v in p.items() if k != "variant"}) for n, c, m, p in pl])
    res["assumptions"] += [
        "documented encoding: enum value; 0 for absent components and for everything under a node that is not ON; visible value when "
        "*_requires_scan else true value; counts binned by the scenario thresholds (default 0/5/10); traffic/load bin min(int(u*9)+1,10); "
        "NMNE = bin of the increase since the previous observation; ACL ids: 0 empty slot, 1 any/unlisted, i+2 listed",
    ]
    return res
