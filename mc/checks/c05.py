"""C05 — requests resolve to a documented status; refused requests change nothing.

Harness: the real Simulation of a GEN member (7 nodes, every shipped service/application somewhere), driven at simulator
level.  BFS over tree-changing events (install/uninstall, create/delete file & folder, node power, service stop/disable,
NIC disable, ticks).  At EVERY explored state:
  A. every path of the live request tree and every mutation of it (element deleted / misspelt at each depth) is classified
     by an independent walker; requests classified MISSING or REFUSED are executed on the live state: the answer must be
     'unreachable' resp. 'failure' (with a reason), never 'success', never an exception, and the whole canonical state and
     describe_state() must be unchanged;
  B. every registered action type aimed at existing components (request formed by the real form_request) is executed in a
     forked snapshot: never 'unreachable', never an exception, always a RequestResponse with a documented status.
"""
from __future__ import annotations

import copy
import os
import time

from .. import common, engine, harness_env as HE, harness_sim as HS
from ..engine import violation
from .c11 import walk

common.import_sim()

PROP = "C05"
STATUSES = ("success", "failure", "unreachable", "pending")

EVENT_ACTIONS = [
    ("node-shutdown", "database_server"), ("node-startup", "database_server"), ("node-shutdown", "client_1"),
    ("node-service-stop", "web_server"), ("node-service-disable", "web_server"), ("node-application-remove", "client_1"),
    ("node-application-install", "client_2"), ("node-file-delete", "backup_server"), ("node-file-create", "newdir"),
    ("node-folder-create", "docs"), ("host-nic-disable", "database_server"), ("network-port-disable", None),
    ("node-application-close", "client_1"), ("node-service-restart", "database_server"),
    ("node-file-create", "a.txt"), ("node-application-remove", "web_server"), ("node-folder-restore", "docs"),
    ("node-application-remove", "client_2"),  # removes what the install action above installed at run time
]


# tree-changing events through the Python API (what red agents, scripted software and set-up code use): the request tree has to
# follow the components whichever way they come and go
API_EVENTS = [
    ("api", "uninstall", "client_1", "web-browser"), ("api", "uninstall", "web_server", "web-server"),
    ("api", "install", "client_2", "database-client"), ("api", "delete_file", "backup_server", "docs", "b.txt"),
    ("api", "delete_folder", "backup_server", "docs"), ("api", "restore_folder", "backup_server", "docs"),
    ("api", "create_file", "client_1", "apidir", "n.txt"),
]


class Sut:
    pass


def _form(entry):
    from primaite.game.agent.actions import ActionManager  # noqa
    from primaite.game.agent.actions.abstract import AbstractAction

    cls = AbstractAction._registry[entry["action"]]
    return cls.form_request(cls.ConfigSchema(type=entry["action"], **entry["options"]))


def names_existing(sim, entry) -> bool:
    """Do all component names in the action's parameters exist in the live simulation?"""
    o = entry["options"]
    net = sim.network
    a = entry["action"]
    node = None
    for k in ("node_name", "target_router", "target_firewall_nodename", "target_nodename", "source_node"):
        if k in o:
            node = net.get_node_by_hostname(o[k])
            if node is None:
                return False
    if a == "do-nothing":
        return True
    if node is None:
        return False
    if "service_name" in o and o["service_name"] not in node.software_manager.software:
        return False
    if "application_name" in o:
        if a == "node-application-install":
            pass
        elif o["application_name"] not in node.software_manager.software:
            return False
    if "folder_name" in o and a not in ("node-folder-create", "node-file-create"):
        fo = node.file_system.get_folder(o["folder_name"])
        if fo is None:
            return False
        if "file_name" in o and fo.get_file(o["file_name"]) is None:
            return False
    if "nic_num" in o and o["nic_num"] not in node.network_interface:
        return False
    if "port_num" in o and o["port_num"] not in node.network_interface:
        return False
    if a.startswith("c2-server") and "c2-server" not in node.software_manager.software:
        return False
    if a == "configure-c2-beacon" and "c2-beacon" not in node.software_manager.software:
        return False
    if a == "configure-database-client" and "database-client" not in node.software_manager.software:
        return False
    if a == "configure-ransomware-script" and "ransomware-script" not in node.software_manager.software:
        return False
    if a == "configure-dos-bot" and "dos-bot" not in node.software_manager.software:
        return False
    if a.startswith("node-nmap") or a == "node-network-service-recon":
        return "nmap" in node.software_manager.software
    if a.startswith("node-session") or a.startswith("node-send") or a.startswith("node-account"):
        return "terminal" in node.software_manager.software and "user-manager" in node.software_manager.software
    return True


class ReqAdapter(engine.Adapter):
    fork_expand = False

    def __init__(self, variant, light=False):
        self.variant = variant
        self.name = "c05-%s%s" % (variant["name"], "-light" if light else "")
        self.cfg = HE.gen_scenario(variant)
        for n in self.cfg["simulation"]["network"]["nodes"]:
            if n["hostname"] in variant.get("initially_off", ()):
                n["operating_state"] = "OFF"  # a node the scenario declares as switched off (started later by an action)
        self.actions = HE.blue_actions(variant)
        self.light = light
        self.events = [("tick",)]
        for want, tgt in EVENT_ACTIONS:
            for i, e in enumerate(self.actions):
                if e["action"] == want and (tgt is None or tgt in str(sorted(e["options"].items()))) and "ghost" not in str(e["options"]):
                    self.events.append(("act", i))
                    break
        self.events += [e for e in API_EVENTS]
        for hn in variant.get("initially_off", ()):
            for i, e in enumerate(self.actions):
                if e["action"] == "node-startup" and e["options"].get("node_name") == hn and ("act", i) not in self.events:
                    self.events.append(("act", i))

    def params(self):
        return {"variant": self.variant, "light": self.light}

    def build(self):
        from primaite.game.game import PrimaiteGame
        from .. import seams

        seams.reset()
        s = Sut()
        s.game = PrimaiteGame.from_config(copy.deepcopy(self.cfg))
        s.sim = s.game.simulation
        s.t = 0
        s.sim.pre_timestep(0)
        s.stats = {"paths": 0, "mutations": 0, "refused_executed": 0, "missing_executed": 0, "actions_executed": 0}
        return s

    def check_initial(self, s):
        return self._probe(s, ("init",))

    def menu(self, s):
        return self.events

    def label(self, ev):
        if ev[0] == "api":
            return "api-" + ev[1]
        return ev[0] if ev[0] == "tick" else self.actions[ev[1]]["action"]

    def canon(self, s):
        return _state(s)[0]

    def apply(self, s, ev):
        if ev[0] == "tick":
            s.sim.apply_timestep(s.t)
            s.t += 1
            s.sim.pre_timestep(s.t)
            outcome = "tick"
        elif ev[0] == "api":
            outcome = self._api(s, ev)
        else:
            entry = self.actions[ev[1]]
            resp = s.sim.apply_request(_form(entry))
            outcome = resp.status
        return outcome, self._probe(s, ev)

    def _api(self, s, ev):
        node = s.sim.network.get_node_by_hostname(ev[2])
        k = ev[1]
        try:
            if k == "uninstall":
                if ev[3] not in node.software_manager.software:
                    return "absent"
                node.software_manager.uninstall(ev[3])
                return "done"
            if k == "install":
                from primaite.simulator.system.applications.application import Application

                if ev[3] in node.software_manager.software:
                    return "present"
                node.software_manager.install(Application._registry[ev[3]])
                return "done"
            fs = node.file_system
            if k == "delete_file":
                return repr(fs.delete_file(folder_name=ev[3], file_name=ev[4]))
            if k == "delete_folder":
                return repr(fs.delete_folder(folder_name=ev[3]))
            if k == "restore_folder":
                return repr(fs.restore_folder(folder_name=ev[3]))
            if k == "create_file":
                return type(fs.create_file(file_name=ev[4], folder_name=ev[3])).__name__
        except Exception as e:  # noqa - the API's own error behaviour is not C05's subject; the resulting tree is
            return "raised-" + type(e).__name__
        raise engine.HarnessError("unknown api event %r" % (ev,))

    def _compare(self, s, base, batch, add):
        return _compare_impl(self, s, base, batch, add)

    # ------------------------------------------------------------------------------------------------------
    def _probe(self, s, ev):
        viols = {}

        def add(v):
            viols.setdefault((v["clause"], v["signature"]), v)

        sim = s.sim
        rm = sim._request_manager
        paths = rm.get_request_types_recursively()
        s.stats["paths"] += len(paths)
        base = _state(s)
        # A: live paths and their mutations
        tried = set()
        executed = []
        for path in paths:
            cands = [list(path)]
            for d in range(len(path)):
                cands.append(list(path[:d]) + list(path[d + 1:]))
                mis = list(path)
                mis[d] = (str(path[d]) + "_x") if not isinstance(path[d], int) else path[d] + 1000
                cands.append(mis)
            for req in cands:
                key = repr(req)
                if key in tried:
                    continue
                tried.add(key)
                s.stats["mutations"] += 1
                w = walk(rm, list(req))
                if w[0] in ("handler", "malformed"):
                    s.stats[w[0]] = s.stats.get(w[0], 0) + 1
                    continue
                kind = _kind(req)
                try:
                    resp = sim.apply_request(list(req))
                except Exception as e:  # noqa
                    add(violation("answered_not_raised", "%s:%s" % (w[0], type(e).__name__),
                                  "request %r (walker: %s) raised %s: %s" % (req, w, type(e).__name__, e)))
                    continue
                status = getattr(resp, "status", None)
                if w[0] in ("missing", "exhausted"):
                    s.stats["missing_executed"] += 1
                    if status != "unreachable":
                        add(violation("missing_component_is_unreachable", "%s:status=%s" % (kind, status),
                                      "request %r addresses nothing at depth %d but was answered %r" % (req, w[1], resp)))
                else:
                    s.stats["refused_executed"] += 1
                    if status != "failure" or not (resp.data or {}).get("reason"):
                        add(violation("refused_is_failure_with_reason", "%s:%s:status=%s" % (kind, w[2], status),
                                      "request %r is refused by %s at depth %d but was answered %r" % (req, w[2], w[1], resp)))
                executed.append((list(req), w, kind))
                if len(executed) % 400 == 0:
                    base = self._compare(s, base, executed[-400:], add)
        base = self._compare(s, base, executed[-(len(executed) % 400):] if len(executed) % 400 else [], add)
        # D: file-system requests that address their target by PARAMETER (delete / restore / access <folder> [<file>]): when the
        # named folder or file does not exist (never created, or deleted and therefore unavailable) the answer is never
        # 'success' and nothing changes.  Requests whose target exists are not executed here (they legitimately change state).
        executed_d = []
        for node in sim.network.nodes.values():
            fs = getattr(node, "file_system", None)
            if fs is None:
                continue
            hn = node.config.hostname
            live = {fo.name: fo for fo in fs.folders.values()}
            dele = {fo.name: fo for fo in fs.deleted_folders.values()}
            folders = list(live)[:2] + list(dele)[:2] + ["no_such_dir"]
            for F in folders:
                fo = live.get(F) or dele.get(F)
                lf = {f.name for f in fo.files.values()} if fo is not None else set()
                df = {f.name for f in fo.deleted_files.values()} if fo is not None else set()
                files = sorted(lf)[:2] + sorted(df - lf)[:2] + ["no_such_file"]
                cands = []
                if F not in live:
                    cands.append((["delete", "folder", F], "folder-%s" % ("deleted" if F in dele else "never")))
                if F not in live and F not in dele:
                    cands.append((["restore", "folder", F], "folder-never"))
                for f in files:
                    why = None
                    if F not in live:
                        why = "folder-%s" % ("deleted" if F in dele else "never")
                    elif f not in lf:
                        why = "file-%s" % ("deleted" if f in df else "never")
                    if why:
                        cands.append((["delete", "file", F, f], why))
                        cands.append((["access", F, f], why))
                    if F not in live or (f not in lf and f not in df):
                        cands.append((["restore", "file", F, f], why or "file-never"))
                for tail, why in cands:
                    req = ["network", "node", hn, "file_system"] + tail
                    s.stats["param_addressed_executed"] = s.stats.get("param_addressed_executed", 0) + 1
                    try:
                        resp = sim.apply_request(list(req))
                    except Exception as e:  # noqa
                        add(violation("answered_not_raised", "param:%s:%s" % ("/".join(tail[:2]), type(e).__name__),
                                      "request %r (%s) raised %s: %s" % (req, why, type(e).__name__, e)))
                        continue
                    if getattr(resp, "status", None) == "success":
                        add(violation("missing_component_never_success", "param:%s:%s" % ("/".join(tail[:2]), why),
                                      "request %r names a %s that does not exist (%s) but was answered %r" % (req, tail[1], why, resp)))
                    executed_d.append((list(req), ("param-missing", 4, why), "file_system/" + "/".join(tail[:2])))
        base = self._compare(s, base, executed_d, add)
        # A2: every route of the live tree leads to the live component it names (and only existing components have routes)
        for v in _route_identity(sim):
            add(v)
        # B: every action type aimed at existing components
        if not self.light or ev[0] in ("init",):
            idx = [i for i, e in enumerate(self.actions) if names_existing(sim, e)]

            def one(i):
                entry = self.actions[i]
                req = _form(entry)
                w = walk(rm, list(req))
                try:
                    resp = sim.apply_request(list(req))
                except Exception as e:  # noqa
                    return ("raised", "%s: %s" % (type(e).__name__, str(e)[:200]), w, req)
                return ("ok", (getattr(resp, "status", None), type(resp).__name__), w, req)

            for i, (st, info, w, req) in engine.fork_each(idx, one):
                s.stats["actions_executed"] += 1
                name = self.actions[i]["action"]
                if st == "raised":
                    add(violation("answered_not_raised", "action:%s:%s" % (name, info.split(":")[0]),
                                  "action %s %s -> request %r raised %s" % (name, self.actions[i]["options"], req, info)))
                    continue
                status, tname = info
                if tname != "RequestResponse" or status not in STATUSES:
                    add(violation("documented_status", "action:%s" % name, "action %s answered %r (%s)" % (name, status, tname)))
                if status == "unreachable" or w[0] == "missing":
                    add(violation("existing_target_never_unreachable", "action:%s:%s" % (name, w[0]),
                                  "action %s %s names existing components but request %r was %s / answered %s" % (
                                      name, self.actions[i]["options"], req, w, status)))
        # C: handler-reaching raw paths that no action class forms, with well-formed primitive arguments
        # Off by default: without per-handler argument types an exception cannot be told from an ill-typed argument
        # (ACLAction["admin"] -> KeyError, IPv4Address(False) -> AttributeError ...), i.e. the probe would demand more than
        # C05 states. VERIF_C05_HANDLERS=1 runs it for information.
        if os.environ.get("VERIF_C05_HANDLERS") and (ev[0] in ("init",) or not self.light):
            viols_c = self._probe_handlers(s, paths, rm)
            for v in viols_c:
                add(v)
        return list(viols.values())

    POOL = ["admin", "wrong-password", "10.0.0.2", "nope", "bogus-session-id", 1, False]

    def _probe_handlers(self, s, paths, rm):
        """Every leaf of the request tree is called (in a forked snapshot, one per leaf kind) with every vector of up to three
        well-formed primitive values. Arity/type mismatches (IndexError, ValueError, TypeError, pydantic validation) are the
        caller's fault and ignored; an AttributeError or KeyError escaping from apply_request is a request that was not
        answered (e.g. a handler choking on its own None result, or on a user/session that does not exist)."""
        import itertools

        sim = s.sim
        kinds = {}
        covered = set()
        for e in self.actions:
            try:
                covered.add(_kind(_form(e)) + "/" + str(_form(e)[-1]))
            except Exception:  # noqa
                pass
        for path in paths:
            if walk(rm, list(path))[0] != "handler":
                continue
            k = _leaf_kind(sim, path)
            kinds.setdefault(k, list(path))
        vectors = [()]
        for n in (1, 2, 3):
            vectors += list(itertools.product(self.POOL, repeat=n))
        s.stats["handler_leaf_kinds"] = len(kinds)
        s.stats["handler_calls"] = s.stats.get("handler_calls", 0) + len(kinds) * len(vectors)

        def one(item):
            k, path = item
            bad = {}
            for vec in vectors:
                try:
                    r = sim.apply_request(list(path) + list(vec))
                    if r is None or getattr(r, "status", None) not in STATUSES:
                        bad.setdefault("answer:%r" % (type(r).__name__,), (list(vec), repr(r)[:120]))
                except (IndexError, ValueError, TypeError) as e:  # arity / ill-typed argument: malformed by the caller
                    continue
                except (AttributeError, KeyError) as e:
                    bad.setdefault(type(e).__name__, (list(vec), "%s: %s" % (type(e).__name__, str(e)[:160])))
                except Exception as e:  # noqa - pydantic ValidationError and friends: ill-typed argument
                    if "ValidationError" in type(e).__name__:
                        continue
                    bad.setdefault(type(e).__name__, (list(vec), "%s: %s" % (type(e).__name__, str(e)[:160])))
            return bad

        out = []
        for (k, path), bad in engine.fork_each(sorted(kinds.items()), one):
            for exc, (vec, msg) in bad.items():
                out.append(violation("answered_not_raised", "handler:%s:%s" % (k, exc),
                                     "request %r + %r was not answered: %s" % (path, vec, msg)))
        return out


def _leaf_kind(sim, path):
    """Leaf path with instance names replaced by the node's type (one representative per kind is probed)."""
    out = []
    node = None
    for i, x in enumerate(path):
        if i == 2 and path[:2] == ["network", "node"]:
            node = sim.network.get_node_by_hostname(x)
            out.append(type(node).__name__ if node is not None else "*")
        elif i >= 2 and path[i - 1] in ("folder", "file") and x not in ("file", "folder"):
            out.append("*")
        else:
            out.append(str(x))
    return "/".join(out)


def _compare_impl(ad, s, base, batch, add):
    """State must be unchanged after a batch of MISSING/REFUSED requests; on a difference each request of the batch is
    re-executed alone in a forked snapshot of the *current* state to name the culprit (refusals are idempotent)."""
    if not batch:
        return base
    after = _state(s)
    if after[0] == base[0]:
        return base

    def one(item):
        req, w, kind = item
        b = _state(s)
        try:
            s.sim.apply_request(list(req))
        except Exception:  # noqa
            return None
        a = _state(s)
        return None if a[0] == b[0] else _diff(b, a)

    named = False
    for (req, w, kind), d in engine.fork_each(batch, one):
        if d:
            named = True
            add(violation("refused_or_unreachable_changes_nothing", "%s:%s" % (w[0], kind),
                          "request %r (%s) changed the state: %s" % (req, w, d)))
    if not named:
        add(violation("refused_or_unreachable_changes_nothing", "batch:%s" % batch[0][2],
                      "a batch of %d refused/unreachable requests starting with %r changed the state: %s" % (
                          len(batch), batch[0][0], _diff(base, after))))
    return after


def _route_identity(sim):
    """Requests are routed by name. For every name-keyed route of every node: the component of that name must exist and the
    route must lead to THAT component's request manager (not to a removed or deleted object that once had the name)."""
    from .c11 import _next_manager

    out = []
    for node in sim.network.nodes.values():
        hn = node.config.hostname
        ntype = type(node).__name__
        nrm = node._request_manager
        route = sim.network._node_request_manager.request_types.get(hn)
        if route is None or _next_manager(route.func) is not nrm:
            out.append(violation("route_leads_to_named_component", "node-route", "node %s: network route does not lead to the node" % hn))
        for kind, reg, rmname in (("service", node.services, "_service_request_manager"), ("application", node.applications, "_application_request_manager")):
            rm = getattr(node, rmname)
            live = {sw.name: sw for sw in reg.values() if node.software_manager.software.get(sw.name) is sw}
            for name, rt in rm.request_types.items():
                sw = live.get(name)
                if sw is None:
                    out.append(violation("route_leads_to_named_component", "%s-route:no-such-component" % kind,
                                         "%s %s: request route '%s/%s' exists but no such %s is installed" % (ntype, hn, kind, name, kind)))
                elif _next_manager(rt.func) is not sw._request_manager:
                    out.append(violation("route_leads_to_named_component", "%s-route:other-object" % kind,
                                         "%s %s: request route '%s/%s' does not lead to the installed %s" % (ntype, hn, kind, name, kind)))
            for name in live:
                if name not in rm.request_types:
                    out.append(violation("route_leads_to_named_component", "%s-route:missing" % kind,
                                         "%s %s: installed %s '%s' has no request route" % (ntype, hn, kind, name)))
        fs = node.file_system
        for fo in fs.folders.values():
            rt = fs._folder_request_manager.request_types.get(fo.name)
            if rt is None or _next_manager(rt.func) is not fo._request_manager:
                out.append(violation("route_leads_to_named_component", "folder-route:%s" % ("missing" if rt is None else "other-object"),
                                     "%s %s: route of live folder '%s' %s" % (ntype, hn, fo.name, "is missing" if rt is None else "leads to another (deleted) folder object")))
            for f in fo.files.values():
                rt = fo._file_request_manager.request_types.get(f.name)
                if rt is None or _next_manager(rt.func) is not f._request_manager:
                    out.append(violation("route_leads_to_named_component", "file-route:%s" % ("missing" if rt is None else "other-object"),
                                         "%s %s: route of live file '%s/%s' %s" % (ntype, hn, fo.name, f.name,
                                                                                  "is missing" if rt is None else "leads to another (deleted) file object")))
        for num, nic in node.network_interface.items():
            rt = node._nic_request_manager.request_types.get(num)
            if rt is None or _next_manager(rt.func) is not nic._request_manager:
                out.append(violation("route_leads_to_named_component", "nic-route", "%s %s: interface %s route is wrong" % (ntype, hn, num)))
    out += _dead_owners(sim)
    seen = {}
    for v in out:
        seen.setdefault(v["signature"], v)
    return list(seen.values())


def _dead_owners(sim):
    """Whatever route it hangs on: no request manager reachable in the live tree may belong to software that is not installed, to
    a file or folder the file system no longer holds (live or deleted), or to an interface its node does not have."""
    import gc
    from primaite.simulator.core import SimComponent
    from primaite.simulator.file_system.file import File
    from primaite.simulator.file_system.folder import Folder
    from primaite.simulator.network.hardware.base import NetworkInterface
    from primaite.simulator.system.software import Software
    from .c11 import _next_manager

    live = set()
    for node in sim.network.nodes.values():
        for sw in node.software_manager.software.values():
            live.add(id(sw))
        for nic in node.network_interface.values():
            live.add(id(nic))
        # deleted files and folders stay part of the file system (their routes carry the restore request and are guarded by
        # the exists / not-deleted rules); what must not be routed is an object the file system no longer holds at all
        fs = node.file_system
        for fo in list(fs.folders.values()) + list(fs.deleted_folders.values()):
            live.add(id(fo))
            for f in list(fo.files.values()) + list(fo.deleted_files.values()):
                live.add(id(f))
    owner = {}
    for o in gc.get_objects():
        if SimComponent in type(o).__mro__:
            rm = getattr(o, "_request_manager", None)
            if rm is not None:
                owner[id(rm)] = o
    out = []
    seen, stack = set(), [(sim._request_manager, ())]
    while stack:
        rm, path = stack.pop()
        if id(rm) in seen:
            continue
        seen.add(id(rm))
        o = owner.get(id(rm))
        if isinstance(o, (Software, File, Folder, NetworkInterface)) and id(o) not in live:
            kind = _kind(list(path))
            out.append(violation("route_leads_to_named_component", "removed-component-still-routed:%s:%s" % (type(o).__mro__[1].__name__ if isinstance(o, Software) else type(o).__name__, kind),
                                 "request path %r leads to the request manager of %s %r, which is not a live component of the simulation" % (
                                     list(path), type(o).__name__, getattr(o, "name", None) or getattr(o, "port_num", None))))
            continue
        for key, rt in rm.request_types.items():
            nxt = _next_manager(rt.func)
            if nxt is not None:
                stack.append((nxt, path + (key,)))
    return out


def _kind(req):
    """Coarse shape of a request for signatures: its verbs without instance names."""
    keep = {"network", "node", "service", "application", "file_system", "folder", "file", "network_interface", "acl", "os",
            "software_manager", "domain", "account", "create", "delete", "restore", "access", "process"}
    return "/".join(str(x) if x in keep else "*" for x in req[:6])


def _state(s):
    ids = HS.Ids()
    deep = tuple(HS.node_canon(n, ids) for n in s.sim.network.nodes.values())
    from .. import envexplore as EE

    desc = EE.normalise_ids(repr(HE.to_plain(s.sim.describe_state())))
    acl = []
    for n in s.sim.network.nodes.values():
        for attr in ("acl", "internal_inbound_acl", "internal_outbound_acl", "dmz_inbound_acl", "dmz_outbound_acl",
                     "external_inbound_acl", "external_outbound_acl"):
            a = getattr(n, attr, None)
            if a is not None and hasattr(a, "acl"):
                acl.append(tuple(None if r is None else (r.action.value, r.protocol, str(r.src_ip_address), r.match_count) for r in a.acl))
    return (HE.sha(EE.normalise_ids(repr(deep))), HE.sha(desc), tuple(acl)), deep, desc


def _diff(a, b):
    if a[1] != b[1]:
        for x, y in zip(a[1], b[1]):
            if x != y:
                for i, (p, q) in enumerate(zip(x, y)):
                    if p != q:
                        return "node %s field %d: %r -> %r" % (x[0], i, str(p)[:150], str(q)[:150])
    if a[2] != b[2]:
        i = next(k for k in range(min(len(a[2]), len(b[2]))) if a[2][k] != b[2][k])
        return "describe_state: ...%s... -> ...%s..." % (a[2][max(0, i - 60):i + 40], b[2][max(0, i - 60):i + 40])
    return "acl tables differ"


def make_adapter(params):
    return ReqAdapter(params["variant"], params.get("light", False))


def replay(doc):
    ad = make_adapter(doc["params"])
    s = ad.build()
    out = []
    if not doc["history"] and doc.get("event") is None:
        return ad.check_initial(s)
    for ev in doc["history"]:
        ad.apply(s, tuple(ev))
    if doc.get("event") is not None:
        _, v = ad.apply(s, tuple(doc["event"]))
        out += v
    return out


def run(tier, is_known):
    t0 = time.time()
    off = dict(HE.GEN[0], name="gen0-off", initially_off=["client_2", "backup_server", "switch_2"])
    plans = [(HE.GEN[0], 1, False), (HE.GEN[2], 1, True), (HE.GEN[0], 2, True), (off, 1, True)]
    if tier == "thorough":
        plans = [(HE.GEN[0], 2, False), (HE.GEN[2], 2, False), (HE.GEN[4], 3, True), (off, 2, False)]
    viols = []
    per = []
    states = trans = 0
    samples = []
    hist = {}
    exhaustive = True
    ads = []
    for v, depth, light in plans:
        ad = ReqAdapter(v, light)
        engine._ADAPTERS[ad.name] = ad
        ads.append((ad, depth))
    probes = {"paths": 0}
    for ad, depth in ads:
        t1 = time.time()
        r = engine.bfs(ad, depth, state_budget=50000, time_budget=3000 if tier == "thorough" else 1200, is_known=is_known)
        viols += r.violations
        states += r.states
        trans += r.transitions
        exhaustive = exhaustive and r.capped is None
        for k, n in r.hist.items():
            hist[k] = hist.get(k, 0) + n
        samples += r.samples[:1]
        s = ad.build()
        ad._probe(s, ("init",))
        per.append({"adapter": ad.name, "depth_completed": r.max_depth_completed, "states": r.states, "transitions": r.transitions,
                    "merged_by_canon": r.merged, "pruned_after_violation": r.pruned, "cap": r.capped,
                    "probe_at_one_state": dict(s.stats), "events": len(ad.events), "wall_s": round(time.time() - t1, 1)})
    per_state = per[0]["probe_at_one_state"]
    cov = {"states": states, "transitions": trans, "traces_validated_against_impl": trans,
           "requests_probed_per_state": per_state, "samples": samples or [{"history": []}], "exhaustive": exhaustive,
           "harnesses": per, "event_histogram": hist,
           "explanation": "at every explored state every live request path and every single-element mutation of it is classified by an "
                          "independent walker and, when MISSING/REFUSED, executed against the real Simulation with a full-state comparison; "
                          "every action type aimed at existing components is executed in a forked snapshot"}
    return {"violations": viols, "coverage": cov, "level": "model_checking",
            "assumptions": ["handler-reaching raw paths are not executed without their parameters (only well-formed requests formed by action classes are)",
                            "state comparison = deep canonical state + describe_state (ids normalised) + ACL tables incl. hit counters; log files are not state"],
            "summary": "states=%d transitions=%d paths/state~%d mutations/state~%d wall=%.0fs" % (
                states, trans, per_state["paths"], per_state["mutations"], time.time() - t0)}
