"""C16 — logins need valid credentials; remote commands need a live session.

Explicit-state BFS over a real LAN (clients C and C2, server S, one switch) inside a real Simulation.  S's
user-session-manager is configured with a small remote-session limit and short time-outs.  Every event is one
request through ``Simulation.apply_request`` (the path agent actions use) or, where no request exists (enable_user,
local login/logout, the k-th connection object of a client), the documented Python API.  Connection handles are
symbolic: "the k-th successful remote login of this history"; stale handles are kept and retried.

Oracle: a small reference session model (``Ref``) stepped in lock-step with the real objects:

* a login succeeds only for an existing, enabled account with its current password on a powered-on S and, remotely,
  while fewer than ``max_remote_sessions`` sessions are open (and, on an unobstructed path, it does succeed);
* a marker file appears on S only if the command was sent over a session the model holds live (and, on an unobstructed
  path, it does appear);
* logout, time-out (usable up to and including step last_active + timeout - 1) and a password change remove the
  session from the model;
* the last enabled administrator cannot be disabled;
* ``describe_state`` of the user-session-manager (current_local_user, active_remote_sessions) and the account table
  agree with the model after every event.
"""
from __future__ import annotations

import time
import traceback
from ipaddress import IPv4Address

from .. import common, engine
from ..engine import violation

common.import_sim()

from .. import harness_sim as H  # noqa: E402
from primaite.simulator.network.hardware.node_operating_state import NodeOperatingState  # noqa: E402
from primaite.simulator.system.services.service import ServiceOperatingState  # noqa: E402

PROP = "C16"
CONVERSE_NOTES = {}


def _converse(viols, v):
    """The statement gives 'only' directions (a login succeeds ONLY with ..., commands are executed ONLY while ...).
    A refused valid login / an unexecuted command on a live session is therefore not a violation of C16; it is counted
    (vacuity guard during development) and not reported."""
    CONVERSE_NOTES[v["clause"]] = CONVERSE_NOTES.get(v["clause"], 0) + 1

IPS = {"C": "10.0.0.2", "C2": "10.0.0.3", "S": "10.0.0.10"}
RUNNING = ServiceOperatingState.RUNNING


def pw(user, v):
    """The two passwords an account alternates between (variant 0 is the initial one)."""
    if user == "admin":
        return ("admin", "Admin-2!")[v]
    return ("%s-pw-a" % user, "%s-pw-b" % user)[v]


# ------------------------------------------------------------------------------------------------ reference model
class Ref:
    """Reference session model of the server S.  No PrimAITE object is touched here."""

    def __init__(self, max_remote, rto, lto, pre_users):
        self.t = 0
        self.on = True
        self.max_remote = max_remote
        self.rto = rto
        self.lto = lto
        self.users = {"admin": {"v": 0, "disabled": False, "admin": True}}
        for name, is_admin in pre_users:
            self.users[name] = {"v": 0, "disabled": False, "admin": bool(is_admin)}
        self.local = None  # [user, last_active]
        self.remote = []  # ordered [handle, user, last_active]
        self.handles = []  # per successful remote login: {"client", "logged_off", "dead"}

    # credentials
    def variant(self, user, which):
        cur = self.users[user]["v"] if user in self.users else 0
        return cur if which == "right" else 1 - cur

    def blocker(self, user, v, remote):
        """None if the statement allows this login, else the first reason it must fail."""
        if not self.on:
            return "node-off"
        u = self.users.get(user)
        if u is None:
            return "no-such-user"
        if u["disabled"]:
            return "disabled-account"
        if u["v"] != v:
            return "wrong-password"
        if remote and len(self.remote) >= self.max_remote:
            return "session-limit-reached"
        return None

    def enabled_admins(self):
        return [n for n, u in self.users.items() if u["admin"] and not u["disabled"]]

    # sessions
    def live(self, h):
        return any(r[0] == h for r in self.remote)

    def open_remote(self, client, user):
        h = len(self.handles)
        self.handles.append({"client": client, "logged_off": False, "dead": None})
        self.remote.append([h, user, self.t])
        return h

    def close_remote(self, h, why):
        self.remote = [r for r in self.remote if r[0] != h]
        if self.handles[h]["dead"] is None:
            self.handles[h]["dead"] = why

    def touch(self, h):
        for r in self.remote:
            if r[0] == h:
                r[2] = self.t

    def login_local(self, user):
        if self.local is None or self.local[0] != user:
            self.local = [user, self.t]

    def password_changed(self, user):
        self.users[user]["v"] = 1 - self.users[user]["v"]
        ended = [r[0] for r in self.remote if r[1] == user]
        for h in ended:
            self.close_remote(h, "password-change")
        local_ended = self.local is not None and self.local[0] == user
        if local_ended:
            self.local = None
        return ended, local_ended

    def tick(self):
        self.t += 1
        for h, _, last in list(self.remote):
            if last + self.rto <= self.t:
                self.close_remote(h, "timeout")
        if self.local is not None and self.local[1] + self.lto <= self.t:
            self.local = None

    def snapshot(self):
        return (self.on, tuple(sorted((n, u["v"], u["disabled"], u["admin"]) for n, u in self.users.items())),
                None if self.local is None else (self.local[0], self.local[1] - self.t),
                tuple((h, u, last - self.t) for h, u, last in self.remote),
                tuple((h["client"], h["logged_off"], h["dead"]) for h in self.handles))


# ------------------------------------------------------------------------------------------------ adapter
class SessionAdapter(engine.Adapter):
    def __init__(self, name, static, handle_kinds=(), pre_users=(), max_remote=2, rto=3, lto=3, max_handles=3, s_power_steps=0):
        self.name = "c16-" + name
        self.scenario = name
        self.static = [tuple(e) for e in static]
        self.handle_kinds = list(handle_kinds)
        self.pre_users = [list(u) for u in pre_users]
        self.max_remote = max_remote
        self.rto = rto
        self.lto = lto
        self.max_handles = max_handles
        self.s_power_steps = s_power_steps  # start_up_duration and shut_down_duration of S (0 = instantaneous)

    def params(self):
        return {"scenario": self.scenario, "static": [list(e) for e in self.static], "handle_kinds": self.handle_kinds,
                "pre_users": self.pre_users, "max_remote": self.max_remote, "rto": self.rto, "lto": self.lto,
                "max_handles": self.max_handles, "s_power_steps": self.s_power_steps}

    # ------------------------------------------------------------------ build
    def build(self):
        s = H.lan([("computer", "C", IPS["C"]), ("computer", "C2", IPS["C2"]),
                   ("server", "S", IPS["S"], {"start_up_duration": self.s_power_steps, "shut_down_duration": self.s_power_steps})])
        S = s.nodes["S"]
        for name, is_admin in self.pre_users:
            if not S.user_manager.add_user(username=name, password=pw(name, 0), is_admin=bool(is_admin)):
                raise engine.HarnessError("cannot pre-create user %s" % name)
        usm = S.user_session_manager
        usm.max_remote_sessions = self.max_remote
        usm.remote_session_timeout_steps = self.rto
        usm.local_session_timeout_steps = self.lto
        s.start()
        s.S = S
        s.ref = Ref(self.max_remote, self.rto, self.lto, self.pre_users)
        s.handles = []  # {"client", "conn", "sid"}
        s.ncmd = 0
        return s

    # ------------------------------------------------------------------ menu
    def menu(self, s):
        full = len(s.handles) >= self.max_handles
        m = [e for e in self.static if not (full and e[0] in ("rlogin", "usm_rlogin"))]
        for k, h in enumerate(s.handles):
            for kind in self.handle_kinds:
                if kind in ("rcmd", "rlogoff") and h["conn"] is None:
                    continue
                m.append((kind, k))
        return m

    # ------------------------------------------------------------------ helpers
    @staticmethod
    def _svc_running(node, name):
        sw = node.software_manager.software.get(name)
        return sw is not None and sw.operating_state == RUNNING

    def _server_ready(self, s):
        S = s.S
        return (S.operating_state == NodeOperatingState.ON and self._svc_running(S, "user-session-manager")
                and self._svc_running(S, "user-manager"))

    def _path_clear(self, s, client):
        c = s.nodes[client]
        return (self._server_ready(s) and self._svc_running(s.S, "terminal")
                and c.operating_state == NodeOperatingState.ON and self._svc_running(c, "terminal"))

    @staticmethod
    def _marker_exists(s, name):
        for fo in s.S.file_system.folders.values():
            if fo.name == "markers" and any(f.name == name for f in fo.files.values()):
                return True
        return False

    def _next_cmd(self, s):
        name = "m%d.txt" % s.ncmd
        s.ncmd += 1
        return name, ["file_system", "create", "file", "markers", name, False]

    def _handle_of_conn(self, s, conn):
        for k, h in enumerate(s.handles):
            if h["conn"] is conn:
                return k
        return None

    def _handle_of_sid(self, s, sid):
        for k, h in enumerate(s.handles):
            if h["sid"] == sid:
                return k
        return None

    # ------------------------------------------------------------------ apply
    def apply(self, s, ev):
        ev = tuple(ev)
        viols = []
        s.ref.on = s.S.operating_state == NodeOperatingState.ON  # power is an input of this property (timing: C12)
        outcome = getattr(self, "_ev_" + ev[0])(s, ev, viols)
        if not viols:
            viols += self._agreement(s, ev[0])
        return outcome, viols

    def check_initial(self, s):
        return self._agreement(s, "init")

    # --- time
    def _ev_tick(self, s, ev, viols):
        outcome = "tick"
        try:
            s.tick()
        except Exception as e:  # noqa - the time-out machinery runs inside pre_timestep
            frames = [f.name for f in traceback.extract_tb(e.__traceback__)]
            if "_timeout_session" not in frames:
                raise  # not the session time-out: no verdict about this property
            where = frames[-1]
            viols.append(violation(
                "timeout_processing_completes", "tick-raises:%s:%s" % (type(e).__name__, where),
                "advancing the simulation one step raised %s (in %s) while the model expects connections %s to time out; "
                "the rest of pre_timestep (other sessions, other nodes) was skipped" % (
                    type(e).__name__, where, [r[0] for r in s.ref.remote if r[2] + s.ref.rto <= s.ref.t + 1])))
            outcome = "raised-" + type(e).__name__
        s.ref.tick()
        s.ref.on = s.S.operating_state == NodeOperatingState.ON
        return outcome

    # --- accounts
    def _um_req(self, s, tail):
        return s.req(["network", "node", "S", "service", "user-manager"] + tail)

    def _ev_add_user(self, s, ev, viols):
        name, is_admin = ev[1], bool(ev[2])
        st = self._um_req(s, ["add_user", name, pw(name, 0), is_admin]).status
        if st == "success" and name not in s.ref.users:
            s.ref.users[name] = {"v": 0, "disabled": False, "admin": is_admin}
        return st

    def _ev_disable(self, s, ev, viols):
        name = ev[1]
        m = s.ref
        last = m.enabled_admins() == [name]
        st = self._um_req(s, ["disable_user", name]).status
        if st == "success":
            if last:
                viols.append(violation("last_admin_never_disabled", "disable_user:last-enabled-admin",
                                       "disable_user %s answered success although it is the only enabled administrator "
                                       "(accounts %s)" % (name, m.users)))
            if name in m.users:
                m.users[name]["disabled"] = True
        return st

    def _ev_enable(self, s, ev, viols):
        name = ev[1]
        ok = bool(s.S.user_manager.enable_user(name))
        if ok and name in s.ref.users:
            s.ref.users[name]["disabled"] = False
        return ok

    def _ev_chpw(self, s, ev, viols):
        user, which = ev[1], ev[2]
        m = s.ref
        cur = m.users[user]["v"] if user in m.users else 0
        given = m.variant(user, which)
        usm = s.S.user_session_manager
        st = self._um_req(s, ["change_password", user, pw(user, given), pw(user, 1 - cur)]).status
        allowed = user in m.users and which == "right"
        if st == "success" and not allowed:
            viols.append(violation("password_change_needs_current_password",
                                   "change_password:%s" % ("no-such-user" if user not in m.users else "wrong-current-password"),
                                   "change_password(%s, %s current password) answered success" % (user, which)))
            return st
        if st == "success":
            ended, local_ended = m.password_changed(user)
            survivors = [sid for sid, rs in usm.remote_sessions.items() if rs.user.username == user]
            if survivors:
                proof = []
                for sid in survivors:
                    k = self._handle_of_sid(s, sid)
                    if k is not None and s.handles[k]["conn"] is not None:
                        name, cmd = self._next_cmd(s)
                        s.handles[k]["conn"].execute(cmd)
                        proof.append("command sent afterwards over connection #%d executed on S: %s" % (k, self._marker_exists(s, name)))
                viols.append(violation(
                    "password_change_ends_sessions", "change_password:remote-session-survives",
                    "%s changed the password while holding %d remote session(s) %s; afterwards S still lists %d of them as "
                    "active (expected 0). %s" % (user, len(ended), ended, len(survivors), "; ".join(proof))))
            if usm.local_session is not None and usm.local_session.user.username == user:
                viols.append(violation(
                    "password_change_ends_sessions", "change_password:local-session-survives",
                    "%s changed the password while logged in locally (and holding remote sessions %s); afterwards "
                    "current_local_user is still %s (expected None)" % (user, ended, user)))
        return st

    # --- local login
    def _ev_local_login(self, s, ev, viols):
        user, which = ev[1], ev[2]
        m = s.ref
        v = m.variant(user, which)
        ok = bool(s.S.user_session_manager.local_login(user, pw(user, v)))
        why = m.blocker(user, v, remote=False)
        if ok and why:
            viols.append(violation("login_only_with_valid_credentials", "local-login:%s" % why,
                                   "local_login(%s, %s password) succeeded; accounts %s, S on=%s" % (user, which, m.users, m.on)))
        elif not ok and why is None and self._server_ready(s):
            _converse(viols, violation("valid_login_succeeds", "local-login:refused",
                                   "local_login(%s, current password) was refused; accounts %s" % (user, m.users)))
        if ok:
            m.login_local(user)
        return ok

    def _ev_local_logout(self, s, ev, viols):
        ok = bool(s.S.user_session_manager.local_logout())
        if self._server_ready(s) or ok:
            s.ref.local = None
        return ok

    def _ev_local_cmd(self, s, ev, viols):
        """node-send-local-command: logs in locally with the given credentials and runs one command."""
        user, which = ev[1], ev[2]
        m = s.ref
        v = m.variant(user, which)
        name, cmd = self._next_cmd(s)
        st = s.req(["network", "node", "S", "service", "terminal", "send_local_command", user, pw(user, v), {"command": cmd}]).status
        done = self._marker_exists(s, name)
        why = m.blocker(user, v, remote=False)
        if done and why:
            viols.append(violation("login_only_with_valid_credentials", "local-command:%s" % why,
                                   "send_local_command as %s with the %s password ran the command on S; accounts %s, S on=%s" % (
                                       user, which, m.users, m.on)))
        elif not done and why is None and self._server_ready(s) and self._svc_running(s.S, "terminal"):
            _converse(viols, violation("valid_login_succeeds", "local-command:not-executed",
                                   "send_local_command as %s with the current password did not run the command" % user))
        if why is None:
            m.login_local(user)
        return [st, done]

    # --- remote login
    def _ev_rlogin(self, s, ev, viols):
        client, user, which = ev[1], ev[2], ev[3]
        m = s.ref
        v = m.variant(user, which)
        term = s.nodes[client].terminal
        usm = s.S.user_session_manager
        before_c = set(term._connections)
        before_s = set(usm.remote_sessions)
        clear = self._path_clear(s, client)
        st = s.req(["network", "node", client, "service", "terminal", "node_session_remote_login", user, pw(user, v), IPS["S"]]).status
        new_c = [cid for cid in term._connections if cid not in before_c]
        new_s = [sid for sid in usm.remote_sessions if sid not in before_s]
        ok = st == "success"
        why = m.blocker(user, v, remote=True)
        if len(new_s) > 1 or (ok and (len(new_c) != 1 or new_c != new_s)):
            viols.append(violation("login_response_consistent", "remote-login:answer-%s:client-connections=%d:server-sessions=%d" % (
                st, len(new_c), len(new_s)), "login answered %s; new client connections %d, new sessions on S %d" % (st, len(new_c), len(new_s))))
            return st
        if new_s and why:
            viols.append(violation("login_only_with_valid_credentials", "remote-login:%s" % why,
                                   "remote login %s@S from %s with the %s password opened a session (answer %s); accounts %s, S on=%s, "
                                   "open remote sessions %d of max %d" % (user, client, which, st, m.users, m.on, len(m.remote), m.max_remote)))
        elif not ok and why is None and clear:
            _converse(viols, violation("valid_login_succeeds", "remote-login:refused:open-sessions=%d/%d" % (len(m.remote), m.max_remote),
                                   "remote login %s@S from %s with the current password was refused; accounts %s, open remote "
                                   "sessions %s" % (user, client, m.users, m.remote)))
        if new_s:
            # on an obstructed path (client terminal stopped: the answer is dropped) S may open a session the client never
            # learns of: it is kept as a handle without a client connection and occupies a slot until it times out
            m.open_remote(client, user)
            s.handles.append({"client": client, "conn": term._connections[new_s[0]] if ok else None, "sid": new_s[0]})
        return st

    def _ev_usm_rlogin(self, s, ev, viols):
        """Remote login through the request registered by the user-session-manager itself."""
        user, which, client = ev[1], ev[2], ev[3]
        m = s.ref
        v = m.variant(user, which)
        usm = s.S.user_session_manager
        before = set(usm.remote_sessions)
        try:
            r = s.req(["network", "node", "S", "service", "user-session-manager", "remote_login", user, pw(user, v), IPS[client]])
            outcome = r.status
        except Exception as e:  # noqa - the response is not part of this property (C05)
            outcome = "raised-" + type(e).__name__
        new = [sid for sid in usm.remote_sessions if sid not in before]
        why = m.blocker(user, v, remote=True)
        if new and why:
            viols.append(violation("login_only_with_valid_credentials", "usm-remote-login:%s" % why,
                                   "user-session-manager remote_login %s with the %s password opened a session; accounts %s, "
                                   "S on=%s, open %d of max %d" % (user, which, m.users, m.on, len(m.remote), m.max_remote)))
        elif not new and why is None and self._server_ready(s):
            _converse(viols, violation("valid_login_succeeds", "usm-remote-login:refused:open-sessions=%d/%d" % (len(m.remote), m.max_remote),
                                   "user-session-manager remote_login %s with the current password opened no session" % user))
        for sid in new:
            m.open_remote(client, user)
            s.handles.append({"client": client, "conn": None, "sid": sid})
        return [outcome, len(new)]

    # --- remote command
    def _command(self, s, kind, k, send, viols, client):
        m = s.ref
        name, cmd = self._next_cmd(s)
        ret = send(cmd)
        done = self._marker_exists(s, name)
        if k is None:
            if done:
                viols.append(violation("command_only_on_live_session", "%s:no-connection-held" % kind,
                                       "%s holds no connection to S yet the command was executed on S" % client))
            return [repr(ret) if not hasattr(ret, "status") else ret.status, done]
        mh = m.handles[k]
        usable = m.live(k) and not mh["logged_off"]
        if done and not usable:
            why = mh["dead"] or ("logoff" if mh["logged_off"] else "unknown")
            viols.append(violation("command_only_on_live_session", "%s:session-ended-by:%s" % (kind, why),
                                   "a command sent over connection #%d (%s) was executed on S although that session ended by %s "
                                   "(model time %d, live sessions %s)" % (k, mh["client"], why, m.t, m.remote)))
        elif not done and usable and self._path_clear(s, mh["client"]):
            h = s.handles[k]
            _converse(viols, violation(
                "live_session_command_executes", "%s:refused:client-connection-active=%s:server-connection=%s" % (
                    kind, h["conn"].is_active, "present" if h["sid"] in s.S.terminal._connections else "missing"),
                "a command sent over live connection #%d (%s) was not executed on S (model time %d, live sessions %s)" % (
                    k, mh["client"], m.t, m.remote)))
        if done and m.live(k):
            m.touch(k)
        return [repr(ret) if not hasattr(ret, "status") else ret.status, done]

    def _ev_rcmd(self, s, ev, viols):
        k = ev[1]
        h = s.handles[k]
        return self._command(s, "remote-command", k, lambda cmd: h["conn"].execute(cmd), viols, h["client"])

    def _ev_rcmd_req(self, s, ev, viols):
        """node-send-remote-command: the client terminal picks its first connection to that address."""
        client = ev[1]
        conn = s.nodes[client].terminal._get_connection_from_ip(IPv4Address(IPS["S"]))
        k = self._handle_of_conn(s, conn) if conn is not None else None
        return self._command(
            s, "send_remote_command", k,
            lambda cmd: s.req(["network", "node", client, "service", "terminal", "send_remote_command", IPS["S"], {"command": cmd}]),
            viols, client)

    # --- remote logoff
    def _ev_rlogoff(self, s, ev, viols):
        k = ev[1]
        clear_before = self._path_clear(s, s.ref.handles[k]["client"])
        ok = bool(s.handles[k]["conn"].disconnect())
        self._logoff_after(s, k, clear_before)
        return ok

    def _ev_rlogoff_req(self, s, ev, viols):
        client = ev[1]
        conn = s.nodes[client].terminal._get_connection_from_ip(IPv4Address(IPS["S"]))
        k = self._handle_of_conn(s, conn) if conn is not None else None
        clear_before = self._path_clear(s, client)
        st = s.req(["network", "node", client, "service", "terminal", "remote_logoff", IPS["S"]]).status
        if k is not None:
            self._logoff_after(s, k, clear_before)
        return st

    def _logoff_after(self, s, k, clear_before):
        m = s.ref
        mh = m.handles[k]
        was_open_at_client = not mh["logged_off"]
        mh["logged_off"] = True
        if not was_open_at_client or not m.live(k):
            return
        if clear_before:
            m.close_remote(k, "logoff")
        elif s.handles[k]["sid"] not in s.S.user_session_manager.remote_sessions:
            m.close_remote(k, "logoff")  # obstructed path: whether the server learns of it is not part of the statement

    def _ev_usm_rlogout(self, s, ev, viols):
        k = ev[1]
        m = s.ref
        ready = self._server_ready(s)
        try:
            outcome = s.req(["network", "node", "S", "service", "user-session-manager", "remote_logout", s.handles[k]["sid"]]).status
        except Exception as e:  # noqa - the response is not part of this property (C05)
            outcome = "raised-" + type(e).__name__
        if m.live(k) and (ready or s.handles[k]["sid"] not in s.S.user_session_manager.remote_sessions):
            m.close_remote(k, "server-logout")
        return outcome

    # --- power and services
    def _ev_s_term(self, s, ev, viols):
        return s.req(["network", "node", "S", "service", "terminal", ev[1]]).status

    def _ev_c_term(self, s, ev, viols):
        return s.req(["network", "node", ev[1], "service", "terminal", ev[2]]).status

    def _ev_s_power(self, s, ev, viols):
        st = s.req(["network", "node", "S", "shutdown" if ev[1] == "off" else "startup"]).status
        s.ref.on = s.S.operating_state == NodeOperatingState.ON
        return st

    # ------------------------------------------------------------------ agreement of reported state and model
    def _agreement(self, s, kind):
        v = []
        m = s.ref
        S = s.S
        st = S.user_session_manager.describe_state()
        impl = list(st["active_remote_sessions"])
        model = [s.handles[h]["sid"] for h, _, _ in m.remote]
        for sid in impl:
            if sid not in model:
                k = self._handle_of_sid(s, sid)
                why = m.handles[k]["dead"] if k is not None else "never-opened"
                proof = ""
                if k is not None and s.handles[k]["conn"] is not None and not m.handles[k]["logged_off"]:
                    # nothing is explored beneath a violating transition, so the state may be used up for a demonstration
                    name, cmd = self._next_cmd(s)
                    s.handles[k]["conn"].execute(cmd)
                    proof = "; a command sent over it now was executed on S: %s" % self._marker_exists(s, name)
                v.append(violation("reported_sessions_agree", "after-%s:server-keeps-session-ended-by:%s" % (kind, why),
                                   "active_remote_sessions lists connection #%s which the model ended by %s (model time %d, model "
                                   "sessions %s, reported %d sessions)%s" % (k, why, m.t, m.remote, len(impl), proof)))
        for sid in model:
            if sid not in impl:
                k = self._handle_of_sid(s, sid)
                v.append(violation("reported_sessions_agree", "after-%s:server-dropped-live-session" % kind,
                                   "the model holds connection #%s live (model time %d, sessions %s) but active_remote_sessions "
                                   "does not list it" % (k, m.t, m.remote)))
        want_local = None if m.local is None else m.local[0]
        if st["current_local_user"] != want_local:
            v.append(violation("reported_sessions_agree", "after-%s:current_local_user:%s-expected-%s" % (
                kind, "set" if st["current_local_user"] else "none", "set" if want_local else "none"),
                "current_local_user is %r, the model says %r (model time %d, local %s)" % (st["current_local_user"], want_local, m.t, m.local)))
        um = S.user_manager.describe_state()["users"]
        got = {n: (u["password"], u["disabled"], u["is_admin"]) for n, u in um.items()}
        want = {n: (pw(n, u["v"]), u["disabled"], u["admin"]) for n, u in m.users.items()}
        if got != want:
            diff = sorted(n for n in set(got) | set(want) if got.get(n) != want.get(n))
            v.append(violation("account_table_agrees", "after-%s:accounts-differ" % kind,
                               "accounts %s: implementation %s, model %s" % (diff, [got.get(n) for n in diff], [want.get(n) for n in diff])))
        if not any(u["is_admin"] and not u["disabled"] for u in um.values()):
            v.append(violation("last_admin_never_disabled", "after-%s:no-enabled-admin" % kind, "no enabled administrator is left: %s" % got))
        return v

    # ------------------------------------------------------------------ canon
    def canon(self, s):
        ids = H.Ids()
        m = s.ref
        S = s.S
        usm = S.user_session_manager
        nodes = []
        for n in s.net.nodes.values():
            arp = n.software_manager.software.get("arp")
            arp_c = ()
            if arp is not None and hasattr(arp, "arp"):
                arp_c = tuple(sorted((str(ip), ids(e.mac_address)) for ip, e in arp.arp.items()))
            sm = n.session_manager
            part = [n.config.hostname, n.operating_state.value,
                    tuple((nic.port_num, nic.enabled) for nic in n.network_interface.values()),
                    tuple((sw.name, sw.operating_state.value, sw.health_state_actual.value) for sw in n.software_manager.software.values()),
                    tuple(sorted(map(str, n.software_manager.port_protocol_mapping))), arp_c,
                    tuple(sorted(repr(k) for k in sm.sessions_by_key))]
            mt = getattr(n, "mac_address_table", None)
            if mt is not None:
                part.append(tuple(sorted((ids(mac), port.port_num) for mac, port in mt.items())))
            term = n.software_manager.software.get("terminal")
            if term is not None:
                part.append(tuple((ids(cid), type(c).__name__, c.is_active, str(c.ip_address),
                                   c.ssh_session_id in sm.sessions_by_uuid) for cid, c in term._connections.items()))
            nodes.append(tuple(part))
        users = tuple(sorted((u.username, u.password, u.disabled, u.is_admin) for u in S.user_manager.users.values()))
        ls = usm.local_session
        sess = (None if ls is None else (ls.user.username, ls.last_active_step - s.t, ids(ls.uuid)),
                tuple((ids(sid), rs.user.username, str(rs.remote_ip_address), rs.last_active_step - s.t)
                      for sid, rs in usm.remote_sessions.items()),
                usm.current_timestep - s.t)
        hs = tuple((h["client"], ids(h["sid"]), None if h["conn"] is None else h["conn"].is_active) for h in s.handles)
        return (tuple(nodes), users, sess, hs, m.snapshot(), m.t - s.t)


# ------------------------------------------------------------------------------------------------ scenarios
def _scenarios(tier):
    """(adapter, depth, state budget, time budget) per harness; alphabets ordered simplest first."""
    T = tier == "thorough"
    out = []
    # A: who may log in - accounts x credentials x power, local and remote
    out.append((SessionAdapter(
        "credentials",
        [("rlogin", "C", "admin", "right"), ("rlogin", "C", "u2", "right"), ("rlogin", "C", "admin", "wrong"),
         ("rlogin", "C", "u2", "wrong"), ("local_login", "admin", "right"), ("local_login", "u2", "right"),
         ("local_login", "admin", "wrong"), ("local_login", "u2", "wrong"), ("local_cmd", "u2", "right"), ("local_cmd", "u2", "wrong"),
         ("add_user", "u2", False), ("add_user", "a2", True), ("disable", "admin"), ("disable", "u2"), ("disable", "a2"),
         ("enable", "admin"), ("enable", "u2"), ("chpw", "admin", "right"), ("chpw", "admin", "wrong"), ("chpw", "u2", "right"),
         ("chpw", "u2", "wrong"), ("s_power", "off"), ("s_power", "on"), ("local_logout",), ("tick",)],
        handle_kinds=[], max_handles=3, rto=2, lto=2), 6 if T else 4, 400000 if T else 20000, 420 if T else 240))
    # B: live sessions - limit, commands over the k-th connection, logoff, time-out, password change, restarts
    out.append((SessionAdapter(
        "sessions",
        [("tick",), ("rlogin", "C", "admin", "right"), ("rlogin", "C2", "u2", "right"), ("rlogin", "C", "u2", "right"),
         ("chpw", "admin", "right"), ("chpw", "u2", "right"), ("rcmd_req", "C"), ("rlogoff_req", "C"),
         ("s_term", "stop"), ("s_term", "start"), ("s_power", "off"), ("s_power", "on")],
        handle_kinds=["rcmd", "rlogoff"], pre_users=[("u2", False)], max_handles=3), 8 if T else 5, 900000 if T else 30000, 400 if T else 240))
    # C: the user-session-manager's own login/logout requests next to terminal logins
    out.append((SessionAdapter(
        "usm-requests",
        [("tick",), ("usm_rlogin", "admin", "right", "C"), ("usm_rlogin", "admin", "wrong", "C"), ("rlogin", "C", "admin", "right"),
         ("chpw", "admin", "right"), ("s_power", "off"), ("s_power", "on")],
        handle_kinds=["usm_rlogout", "rcmd"], max_handles=3), 7 if T else 4, 300000 if T else 15000, 300 if T else 240))
    # E: stale handles - the client misses the server's time-out notice (its terminal is stopped, or S is off) and retries later
    out.append((SessionAdapter(
        "stale-handles",
        [("tick",), ("rlogin", "C", "admin", "right"), ("rlogin", "C2", "admin", "right"), ("c_term", "C", "stop"), ("c_term", "C", "start"),
         ("s_term", "stop"), ("s_term", "start"), ("s_power", "off"), ("s_power", "on")],
        handle_kinds=["rcmd", "rlogoff"], max_handles=2, rto=2, lto=2), 9 if T else 6, 400000 if T else 20000, 400 if T else 240))
    # G: local and remote time-outs that differ from each other (each kind of session ends after ITS time-out)
    for rto, lto in ((1, 3), (3, 1)):
        out.append((SessionAdapter(
            "timeouts-r%dl%d" % (rto, lto),
            [("tick",), ("rlogin", "C", "admin", "right"), ("local_login", "admin", "right"), ("local_cmd", "admin", "right"),
             ("rcmd_req", "C")],
            handle_kinds=["rcmd"], max_handles=2, rto=rto, lto=lto), 7 if T else 5, 200000 if T else 20000, 300 if T else 240))
    if T:
        # F: S takes one step to shut down and one to boot (NICs go down, BOOTING/SHUTTING_DOWN states are visited)
        out.append((SessionAdapter(
            "slow-power",
            [("tick",), ("rlogin", "C", "admin", "right"), ("rlogin", "C", "admin", "wrong"), ("local_login", "admin", "right"),
             ("s_power", "off"), ("s_power", "on"), ("chpw", "admin", "right")],
            handle_kinds=["rcmd", "rlogoff"], max_handles=2, rto=3, lto=3, s_power_steps=1), 9, 400000, 400))
        # D: everything together, shallower; client-side terminal stop/start and local sessions mixed with remote ones
        out.append((SessionAdapter(
            "mixed",
            [("tick",), ("rlogin", "C", "admin", "right"), ("rlogin", "C2", "admin", "right"), ("rlogin", "C", "u2", "right"),
             ("rlogin", "C", "admin", "wrong"), ("local_login", "admin", "right"), ("local_login", "u2", "right"),
             ("local_cmd", "admin", "right"), ("local_logout",), ("chpw", "admin", "right"), ("chpw", "u2", "right"),
             ("disable", "u2"), ("enable", "u2"), ("add_user", "a2", True), ("disable", "admin"),
             ("rcmd_req", "C"), ("rlogoff_req", "C"), ("c_term", "C", "stop"), ("c_term", "C", "start"),
             ("s_term", "stop"), ("s_term", "start"), ("s_power", "off"), ("s_power", "on"),
             ("usm_rlogin", "admin", "right", "C2")],
            handle_kinds=["rcmd", "rlogoff", "usm_rlogout"], pre_users=[("u2", False)], max_handles=3, rto=2, lto=2), 5, 600000, 500))
    return out


def make_adapter(p):
    return SessionAdapter(p["scenario"], p["static"], p.get("handle_kinds", ()), p.get("pre_users", ()), p.get("max_remote", 2),
                          p.get("rto", 3), p.get("lto", 3), p.get("max_handles", 3), p.get("s_power_steps", 0))


def replay(doc):
    ad = make_adapter(doc["params"])
    s = ad.build()
    out = list(ad.check_initial(s))
    for ev in doc["history"]:
        ad.apply(s, tuple(ev))
    if doc.get("event") is not None:
        _, v = ad.apply(s, tuple(doc["event"]))
        out += v
    return out


def run(tier, is_known):
    t0 = time.time()
    viols = []
    per = []
    samples = []
    hist = {}
    states = trans = outcomes = 0
    exhaustive = True
    for ad, depth, budget, tb in _scenarios(tier):
        t1 = time.time()
        r = engine.bfs(ad, depth, state_budget=budget, time_budget=tb, is_known=is_known, max_violations=100000)
        viols += r.violations
        states += r.states
        trans += r.transitions
        outcomes += len(r.outcomes)
        for k, n in r.hist.items():
            hist[k] = hist.get(k, 0) + n
        samples += r.samples[:1]
        exhaustive = exhaustive and r.capped is None
        per.append({"adapter": ad.name, "params": ad.params(), "depth_requested": depth, "depth_completed": r.max_depth_completed,
                    "states": r.states, "transitions": r.transitions, "merged_by_canon": r.merged,
                    "pruned_after_violation": r.pruned, "frontier_emptied": r.frontier_emptied, "cap": r.capped,
                    "level_sizes": r.level_sizes, "determinism_replays": r.determinism_checked,
                    "distinct_outcomes": len(r.outcomes), "event_histogram": dict(r.hist), "wall_s": round(time.time() - t1, 1)})
    cov = {
        "states": states, "transitions": trans, "traces_validated_against_impl": trans,
        "samples": samples or [{"history": []}], "exhaustive": exhaustive,
        "explanation": "every event sequence up to the stated depth over each harness's alphabet was executed on real Computer/Server/"
                       "Switch objects in a real Simulation (states de-duplicated by canonical form incl. the reference model); the "
                       "reference session model was stepped and compared on every transition",
        "harnesses": per, "event_histogram": hist, "distinct_outcomes": outcomes,
    }
    return {
        "violations": viols, "coverage": cov, "level": "model_checking",
        "assumptions": [
            "LAN of two clients and one server, max_remote_sessions=2, time-outs 2-3 steps, accounts admin/u2/a2, two passwords per account",
            "time-out convention (code and DESIGN): a session idle since step L is usable through step L+timeout-1 and gone from L+timeout; "
            "a local re-login of the logged-in user does not refresh it; a different local user replaces the current one (documented test)",
            "sessions are not ended by disabling the account, by stopping/starting S's terminal or by an (instantaneous, duration 0) power "
            "cycle of S: the statement is silent and the code keeps them; time-outs keep running while S is off",
            "on an obstructed path (S off or a terminal service not running) only the 'only if' direction is demanded; whether a login, "
            "command or logoff gets through there belongs to C12/C13 and the model adopts the implementation's answer",
            "exceptions escaping the user-session-manager's own remote_login/remote_logout requests are recorded as outcomes, not "
            "violations (response contract: C05); an exception escaping a tick while sessions time out is reported",
            "at most 3 connection handles per history (further logins are not offered once 3 succeeded)",
        ],
        "summary": "states=%d transitions=%d harnesses=%d wall=%.0fs" % (states, trans, len(per), time.time() - t0),
    }
