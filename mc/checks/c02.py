"""C02 — every observation is a member of the declared observation space.

(1) environment level: the C01 exploration (BFS + deviation-bounded runs on GEN and the shipped scenarios) with the
    oracle ``observation_space.contains(obs)`` after every reset/step, nested and flattened, and constancy of the
    observation/action space across episodes;
(2) component level: exhaustive product of synthetic state dictionaries for every observation class (every enum value,
    every count from 0 past the top threshold, traffic from 0 to 10x nominal, present / absent / node off).
"""
from __future__ import annotations

import time

from .. import common, engine, envexplore as EE, harness_env as HE
from . import c01
from . import c02_components as comp

PROP = "C02"


# file-system bookkeeping that the observation counts (creations, deletions, accesses) driven two (thorough: three) deep
FS_HINTS = [("do-nothing", ""), ("node-file-delete", "'a.txt'"), ("node-file-delete", "'b.txt'"), ("node-send-local-command", "'restore'"),
            ("node-send-local-command", "'delete'"), ("node-file-restore", "'a.txt'"), ("node-folder-restore", "'docs'"),
            ("node-file-create", "'new.txt'"), ("node-file-create", "'n.txt'"), ("node-file-access", "'a.txt'"),
            ("node-shutdown", "'backup_server'"), ("node-startup", "'backup_server'"), ("node-folder-create", "'docs'")]


def plan(tier):
    # (the threat-actor interference harnesses are about exceptions: C01; here the shipped UC7 scenarios keep a short horizon)
    P = [x for x in c01.scenarios(tier) if not x[0].endswith(("-reset", "-noclient")) and x[0] != "uc7_tap003"]
    P.append(("uc7_tap003", HE.SHIPPED["uc7_tap003"], "dev", dict(H=12 if tier == "thorough" else 2, k=1, reset_seed=None)))
    for v in (HE.GEN[0], HE.GEN[1]):  # members that observe the access counts (nested and flattened)
        P.append((v["name"] + "-fs2", HE.gen_scenario(v), "bfs", dict(depth=3 if tier == "thorough" else 2, budget=60000, hints=FS_HINTS)))
    return P


def replay(doc):
    if doc.get("adapter", "").startswith("c02-component"):
        return comp.replay(doc)
    return c01.replay(doc, [EE.SpaceOracle()])


def run(tier, is_known):
    t0 = time.time()
    res = c01.explore(tier, is_known, lambda: [EE.SpaceOracle()], PROP, plan=plan(tier))
    cres = comp.run(tier)
    res["violations"] += cres["violations"]
    cov = res["coverage"]
    cov["component_level"] = cres["coverage"]
    cov["states"] += cres["coverage"]["evaluations"]
    cov["transitions"] += cres["coverage"]["evaluations"]
    cov["traces_validated_against_impl"] += cres["coverage"]["evaluations"]
    res["summary"] += " | component evaluations=%d classes=%d" % (cres["coverage"]["evaluations"], len(cres["coverage"]["classes"]))
    res["assumptions"] += cres["assumptions"]
    return res
