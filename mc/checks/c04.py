"""C04 — episodes and environment instances are isolated from one another.

(1) Episode isolation (differential): for EVERY dirty history h over a dirtying alphabet (all sequences up to the bound),
    E1 = new env; run h; reset(seed=s); run probe X   must equal   E2 = new env; reset(seed=s); run X
    step for step (observation, reward, every agent's action/parameters/response); plus an object-identity oracle: no
    simulation component or agent reachable from the new game is reachable from the old one.
(2) Instance isolation (schedule enumeration): programs A = [new, reset, step x n] and B = [new, reset, step x m, close];
    ALL order-preserving interleavings, for config pairs {same scenario, different topology, same scenario with different
    nmne_config}; A's digests must equal A run alone.
(3) Episode schedules: episode n after a dirty history equals episode n on a fresh environment advanced by resets only.
"""
from __future__ import annotations

import copy
import gc
import os
import itertools
import time

from .. import common, engine, envexplore as EE, harness_env as HE
from ..engine import violation

PROP = "C04"

DIRTY = ("node-file-delete", "node-file-corrupt", "node-file-create", "node-folder-create", "router-acl-add-rule", "router-acl-remove-rule",
         "firewall-acl-add-rule", "node-service-stop", "node-service-disable", "node-application-install", "node-application-remove",
         "node-application-close", "node-shutdown", "host-nic-disable", "network-port-disable", "node-account-add-user",
         "node-account-change-password", "node-session-remote-login", "node-application-execute", "node-send-remote-command",
         "configure-database-client", "node-service-restart", "node-os-scan", "node-folder-scan")


def dirty_alphabet(cfg):
    blue = [a for a in cfg["agents"] if a["type"] == "proxy-agent"][0]
    amap = blue["action_space"]["action_map"]
    seen = set()
    out = []
    for i in sorted(amap):
        name = amap[i]["action"]
        o = str(sorted(amap[i].get("options", {}).items()))
        if name in DIRTY and "ghost" not in o and "nope" not in o and name not in seen:
            seen.add(name)
            out.append(i)
    return out


def step_digest(env, result):
    obs, rew, term, trunc, info = result
    acts = {k: (v.action, EE.normalise_ids(repr(HE.to_plain(v.parameters))), v.response.status,
                EE.normalise_ids(repr(HE.to_plain(v.response.data)))) for k, v in info["agent_actions"].items()}
    nested = env.agent.observation_manager.current_observation
    mask = [int(x) for x in env.action_masks()] if env.agent.config.agent_settings.action_masking else None
    return HE.sha(repr((HE.to_plain(nested), round(float(rew), 9), bool(trunc), sorted(acts.items()), mask)))


def explain(env, result):
    obs, rew, term, trunc, info = result
    return {"reward": float(rew), "actions": {k: (v.action, v.response.status) for k, v in info["agent_actions"].items()},
            "obs": HE.to_plain(env.agent.observation_manager.current_observation),
            "mask": [int(x) for x in env.action_masks()] if env.agent.config.agent_settings.action_masking else None}


def first_diff(a, b, path=""):
    if type(a) != type(b):
        return path, a, b
    if isinstance(a, dict):
        for k in sorted(set(a) | set(b), key=str):
            if k not in a or k not in b:
                return path + "/" + str(k), a.get(k, "<absent>"), b.get(k, "<absent>")
            d = first_diff(a[k], b[k], path + "/" + str(k))
            if d:
                return d
        return None
    if isinstance(a, (list, tuple)):
        if len(a) != len(b):
            return path + "/len", len(a), len(b)
        for i, (x, y) in enumerate(zip(a, b)):
            d = first_diff(x, y, path + "/%d" % i)
            if d:
                return d
        return None
    return None if a == b else (path, a, b)


PROBE = [0, 0, 0, 0, 0, 0]


def probe_script(cfg):
    """do-nothing steps interleaved with actions that read every subsystem."""
    blue = [a for a in cfg["agents"] if a["type"] == "proxy-agent"][0]
    amap = blue["action_space"]["action_map"]
    want = ["node-os-scan", "node-file-scan", "node-service-scan", "node-application-execute", "node-nmap-ping-scan"]
    idx = []
    for w in want:
        for i in sorted(amap):
            if amap[i]["action"] == w and "ghost" not in str(amap[i].get("options")):
                idx.append(i)
                break
    return [0, 0] + idx + [0, 0, 0]


def _run(cfg, history, seed, probe, keep=False):
    from .. import seams

    Env = HE.import_env()
    seams.reset()
    env = Env(copy.deepcopy(cfg) if not isinstance(cfg, str) else cfg)
    for a in history:
        if a == "reset":
            env.reset()
        else:
            env.step(a)
    old_game = env.game
    env.reset(seed=seed)
    digs, details = [], []
    digs.append(HE.sha(repr(HE.to_plain(env.agent.observation_manager.current_observation))))
    details.append({"obs": HE.to_plain(env.agent.observation_manager.current_observation)})
    for a in probe:
        r = env.step(a)
        digs.append(step_digest(env, r))
        if keep:
            details.append(explain(env, r))
    return digs, details, env, old_game


def _reachable_ids(game):
    """ids of simulation components / agents / managers reachable from a game (bounded walk over primaite objects)."""
    seen = {}
    stack = [game]
    while stack:
        o = stack.pop()
        if id(o) in seen:
            continue
        mod = type(o).__module__ or ""
        if isinstance(o, (str, bytes, int, float, bool, type(None), type)):
            continue
        container = isinstance(o, (dict, list, tuple, set, frozenset))
        if not container and not mod.startswith("primaite"):
            continue
        seen[id(o)] = o
        if isinstance(o, dict):
            stack.extend(o.values())
        elif isinstance(o, (list, tuple, set, frozenset)):
            stack.extend(o)
        else:
            d = getattr(o, "__dict__", None)
            if d:
                stack.extend(d.values())
            p = getattr(o, "__pydantic_private__", None)
            if p:
                stack.extend(p.values())
            e = getattr(o, "__pydantic_extra__", None)
            if e:
                stack.extend(e.values())
    return {i: o for i, o in seen.items() if (type(o).__module__ or "").startswith("primaite")}


_BASE = {}


def episode_item(item):
    """item = (variant name, history tuple). Returns (steps compared, violations)."""
    vname, hist = item[0], item[1]
    seed = item[2] if len(item) > 2 else 7
    v = [g for g in VARIANTS if g["name"] == vname][0]
    cfg = HE.gen_scenario(v) if "path" not in v else v["path"]
    cfgd = cfg if not isinstance(cfg, str) else HE.load_yaml(cfg)
    probe = probe_script(cfgd)
    if len(item) > 3:
        probe = [0] * item[3]  # a long idle probe: what the scripted agents do in the new episode
    key = (vname, seed, len(probe))
    if key not in _BASE:
        _BASE[key] = _run(cfg, [], seed, probe, keep=True)[:2]
    base_d, base_x = _BASE[key]
    try:
        digs, det, env, old_game = _run(cfg, list(hist), seed, probe, keep=True)
    except Exception as e:  # noqa - a raising step is C01's business
        return 0, []
    viols = []
    names = _names(cfgd, hist)
    sig_hist = "+".join(sorted(set(n for n in names if n != "do-nothing"))) or "idle"
    if digs != base_d:
        t = next(i for i, (a, b) in enumerate(zip(digs, base_d)) if a != b)
        d = first_diff(base_x[t], det[t])
        viols.append(violation("episode_after_reset_equals_fresh_episode", "dirty:%s:%s%s" % (sig_hist, _leafsig(d), ":seed=0" if seed == 0 else ""),
                               "variant %s: after history %r and reset(seed=<seed>) the episode differs from a fresh environment's at probe "
                               "step %d: %s fresh=%r dirty=%r" % (vname, names, t, d[0] if d else "?", d[1] if d else "?", d[2] if d else "?")))
    new_ids = _reachable_ids(env.game)
    old_ids = _reachable_ids(old_game)
    shared = [o for i, o in new_ids.items() if i in old_ids and not _is_constant(o)]
    if shared:
        kinds = sorted({type(o).__name__ for o in shared})
        viols.append(violation("new_episode_shares_no_object_with_old", "shared:%s" % "+".join(kinds[:4]),
                               "variant %s: %d objects are reachable from both the old and the new game, e.g. %s" % (
                                   vname, len(shared), ", ".join(kinds[:6]))))
    return len(probe) + 1, viols


def _is_constant(o):
    """Objects that are legitimately shared: enums, classes, loggers' configuration, validators without state."""
    import enum

    if isinstance(o, enum.Enum):
        return True
    n = type(o).__name__
    return n in ("AllowAllValidator", "_SimOutput", "_PrimaitePaths", "NMNEConfig", "AirSpaceFrequency") or n.endswith("Logger")


def _leafsig(d):
    import re

    if not d:
        return "?"
    return re.sub(r"\d+", "N", d[0])


def _names(cfgd, hist):
    blue = [a for a in cfgd["agents"] if a["type"] == "proxy-agent"][0]
    amap = blue["action_space"]["action_map"]
    return [amap[a]["action"] if a != "reset" else "reset" for a in hist]


VARIANTS = [dict(HE.GEN[0], name="iso-routed", ep_len=30), dict(HE.GEN[2], name="iso-fw", ep_len=30),
            dict(HE.GEN[1], name="iso-flat-noscan", ep_len=30),
            # a shipped scenario whose insider threat actor learns and changes credentials during the episode
            {"name": "iso-uc7-tap003", "path": HE.SHIPPED["uc7_tap003"]}]


# ------------------------------------------------------------------------------------------------------------
# (2) instance isolation
# ------------------------------------------------------------------------------------------------------------
def _prog_a(n):
    return [("new",), ("reset",)] + [("step", i) for i in range(n)]


def _prog_b(m):
    return [("new",), ("reset",)] + [("step", i) for i in range(m)] + [("close",)]


def interleavings(na, nb):
    for pos in itertools.combinations(range(na + nb), na):
        s = set(pos)
        yield tuple("A" if i in s else "B" for i in range(na + nb))


_A = dict(HE.GEN[0], name="A", ep_len=30, red_start=1, det=True)
PAIRS = {
    # deterministic settings (variance 0, success probabilities 1): A makes no draw from a process-wide random generator
    "same": (_A, dict(_A, name="B")),
    "other-topology": (_A, dict(HE.GEN[3], name="B", ep_len=30, det=True)),
    "nmne-off-in-B": (_A, dict(_A, name="B", nmne=False)),
    # both instances offer action masks to an agent of the same name, with different action maps
    "masked-other-map": (dict(_A, masking=True), dict(HE.GEN[2], name="B", ep_len=30, det=True)),
    "flat-noscan-B": (_A, dict(HE.GEN[1], name="B", ep_len=30, det=True)),
    # B's scenario has no nmne_config section at all (it must then run with the documented default: no capture)
    "no-nmne-section-in-B": (_A, dict(_A, name="B", drop_nmne_section=True)),
    # stochastic settings: A's red agent and bot draw from the process-wide 'random' module
    "stochastic": (dict(_A, det=False), dict(_A, name="B", det=False)),
}
A_ACTIONS = [0, 0, 0, 0, 0, 0]


def _exec(prog, cfg, state, op, seed):
    """Returns (digest, explanation) of one operation of an instance's program."""
    Env = HE.import_env()
    if op[0] == "new":
        state["env"] = Env(copy.deepcopy(cfg))
        return None, None
    env = state["env"]
    if op[0] == "reset":
        env.reset(seed=seed)
        o = HE.to_plain(env.agent.observation_manager.current_observation)
        return HE.sha(repr(o)), {"obs": o, "mask_bad": _mask_bad(env)}
    if op[0] == "step":
        r = env.step(0)
        x = explain(env, r)
        x["mask_bad"] = _mask_bad(env)
        return step_digest(env, r), x
    if op[0] == "close":
        env.close()
        return None, None


def _mask_bad(env):
    """Entries of THIS instance's mask that disagree with an independent walk of THIS instance's request tree for the requests of
    THIS instance's action map (the solo reference of a comparison lives in the same process as the interleaved run, so a
    process-wide cache would spoil both alike; this reference cannot be spoilt)."""
    if not env.agent.config.agent_settings.action_masking:
        return []
    from .c11 import walk

    mask = [int(x) for x in env.action_masks()]
    rm = env.game.simulation._request_manager
    am = env.agent.action_manager
    bad = []
    if len(mask) != len(am.action_map):
        return ["length %d for %d actions" % (len(mask), len(am.action_map))]
    for i, a in am.action_map.items():
        w = walk(rm, list(am.form_request(action_identifier=a[0], action_options=a[1])))
        if mask[i] != (1 if w[0] == "handler" else 0):
            bad.append((i, a[0], mask[i], w[0]))
            if len(bad) >= 3:
                break
    return bad


_SOLO = {}


def instance_item(item):
    pair, order, na_steps, nb_steps = item
    from .. import seams

    va, vb = PAIRS[pair]
    ca, cb = HE.gen_scenario(va), HE.gen_scenario(vb)
    if vb.get("drop_nmne_section"):
        cb["simulation"]["network"].pop("nmne_config", None)
    pa, pb = _prog_a(na_steps), _prog_b(nb_steps)
    # B is compared with B run alone as well (only the part of B's program before close)
    if ("B", pair, nb_steps) not in _SOLO:
        seams.reset()
        stb = {}
        _SOLO[("B", pair, nb_steps)] = [_exec(pb, cb, stb, op, 22) for op in pb]
    solo_b = _SOLO[("B", pair, nb_steps)]
    if (pair, na_steps) not in _SOLO:
        seams.reset()
        st = {}
        _SOLO[(pair, na_steps)] = [_exec(pa, ca, st, op, 21) for op in pa]
    solo = _SOLO[(pair, na_steps)]
    seams.reset()
    sa, sb = {}, {}
    ia = ib = 0
    got = []
    got_b = []
    for who in order:
        if who == "A":
            got.append(_exec(pa, ca, sa, pa[ia], 21))
            ia += 1
        else:
            got_b.append(_exec(pb, cb, sb, pb[ib], 22))
            ib += 1
    viols = []
    for who, runs, progx in (("A", got, pa), ("B", got_b, pb)):
        for t, g in enumerate(runs):
            if g and g[1] and g[1].get("mask_bad"):
                viols.append(violation("instance_unaffected_by_other_instance", "pair=%s:instance=%s:mask-of-another-instance" % (pair, who),
                                       "pair %s interleaving %s: %s's operation %d (%s): its action mask disagrees with its own request tree "
                                       "for its own action map: %s" % (pair, "".join(order), who, t, progx[t], g[1]["mask_bad"])))
                break
    if [g[0] for g in got_b] != [x[0] for x in solo_b]:
        t = next(i for i, (x, y) in enumerate(zip(got_b, solo_b)) if x[0] != y[0])
        d = first_diff(solo_b[t][1], got_b[t][1])
        leaf = "/".join(_leafsig(d).split("/")[:8])
        # was the other instance's game (re)built between B's own last build and the differing operation?  (a process-wide
        # setting written by every build reaches B only then; a setting B fails to write for itself reaches it always)
        ka = kb = 0
        b_built_at, a_built_after = -1, False
        for i, w in enumerate(order):
            if w == "A":
                if pa[ka][0] in ("new", "reset") and b_built_at >= 0:
                    a_built_after = True
                ka += 1
            else:
                if kb > t:
                    break
                if pb[kb][0] in ("new", "reset"):
                    b_built_at, a_built_after = i, False
                if kb == t:
                    break
                kb += 1
        viols.append(violation("instance_unaffected_by_other_instance",
                               "pair=%s:instance=B:other-instance-built-in-between=%s:first-differing-leaf=%s" % (
                                   pair, "yes" if a_built_after else "no", leaf),
                               "pair %s interleaving %s: B's operation %d (%s) differs from B run alone at %s (alone %r, interleaved %r)" % (
                                   pair, "".join(order), t, pb[t], d[0] if d else "?", d[1] if d else "?", d[2] if d else "?")))
    if [g[0] for g in got] != [x[0] for x in solo]:
        t = next(i for i, (x, y) in enumerate(zip(got, solo)) if x[0] != y[0])
        d = first_diff(solo[t][1], got[t][1])
        b_before = [pb[k][0] for k in range(sum(1 for w in order[: _pos(order, t)] if w == "B"))]
        leaf = _leafsig(d)
        leaf = "/".join(leaf.split("/")[:8])
        viols.append(violation("instance_unaffected_by_other_instance", "pair=%s:first-differing-leaf=%s" % (pair, leaf),
                               "pair %s interleaving %s: A's operation %d (%s) differs from A run alone at %s (alone %r, interleaved %r); "
                               "B had executed %r before it" % (pair, "".join(order), t, pa[t], d[0] if d else "?", d[1] if d else "?",
                                                                d[2] if d else "?", b_before)))
    return len(pa), viols


def _pos(order, t_a):
    k = -1
    for i, w in enumerate(order):
        if w == "A":
            k += 1
            if k == t_a:
                return i
    return len(order)


# ------------------------------------------------------------------------------------------------------------
# (3) schedules
# ------------------------------------------------------------------------------------------------------------
def wrap_item(item):
    """One long-lived environment on an episode schedule: episode j + len(schedule) (the scheduler has looped back) must
    behave exactly like episode j did (same scenario files, same seed)."""
    name, n_sched = item
    from .. import seams
    import shutil

    Env = HE.import_env()
    seams.reset()
    tmp = None
    if name == "generated-with-router":
        tmp = HE.make_schedule_dir("/var/tmp/primaite-verif-sched-%d" % os.getpid(), episodes=n_sched)
        path = tmp
    else:
        path = HE.SHIPPED[name]
    try:
        env = Env(path)
        eps = []
        for ep in range(2 * n_sched + 1):
            env.reset(seed=50 + (ep % n_sched))
            rec = [HE.to_plain(env.agent.observation_manager.current_observation)]
            n = len(env.agent.action_manager.action_map)
            for t in range(3):
                r = env.step(0)
                rec.append(explain(env, r))
            eps.append(rec)
    finally:
        if tmp:
            shutil.rmtree(tmp, ignore_errors=True)
    v = []
    for j in range(n_sched + 1):
        a, b = eps[j], eps[j + n_sched]
        if HE.sha(repr(a)) != HE.sha(repr(b)):
            d = first_diff(a, b)
            v.append(violation("scheduled_episode_independent_of_earlier_episodes", "wrap-around:%s:%s" % (name, "/".join(_leafsig(d).split("/")[:7])),
                               "schedule %s: episode %d (after the schedule looped back) differs from episode %d at %s: %r vs %r" % (
                                   name, j + n_sched, j, d[0] if d else "?", d[1] if d else "?", d[2] if d else "?")))
            break
    return (2 * n_sched + 1) * 4, v


def schedule_item(item):
    name, n_ep, dirty = item
    from .. import seams

    Env = HE.import_env()

    def run(dirty_flag):
        seams.reset()
        env = Env(HE.SHIPPED[name])
        out = []
        for ep in range(n_ep):
            env.reset(seed=100 + ep)
            out.append(HE.sha(repr(HE.to_plain(env.agent.observation_manager.current_observation))))
            n = len(env.agent.action_manager.action_map)
            for t in range(3):
                a = ((ep * 5 + t * 3 + 1) % n) if dirty_flag and ep < n_ep - 1 else 0
                try:
                    r = env.step(a)
                except Exception:  # noqa
                    break
                if ep == n_ep - 1 or not dirty_flag:
                    out.append((ep, t, step_digest(env, r)))
        return out, env

    clean, _ = run(False)
    dirt, _ = run(True)
    last_clean = [x for x in clean if isinstance(x, tuple) and x[0] == n_ep - 1]
    last_dirty = [x for x in dirt if isinstance(x, tuple) and x[0] == n_ep - 1]
    v = []
    if last_clean != last_dirty:
        v.append(violation("scheduled_episode_independent_of_earlier_episodes", "schedule:%s" % name,
                           "schedule %s: episode %d after %d dirty episodes differs from the same episode after clean ones" % (name, n_ep - 1, n_ep - 1)))
    return 3, v


def replay(doc):
    k = doc["params"]["kind"]
    it = doc["params"]["item"]
    if k == "episode":
        return episode_item(tuple([it[0], tuple(it[1])] + list(it[2:])))[1]
    if k == "instance":
        return instance_item((it[0], tuple(it[1]), it[2], it[3]))[1]
    if k == "wrap":
        return wrap_item(tuple(it))[1]
    return schedule_item(tuple(it))[1]


def run(tier, is_known):
    t0 = time.time()
    HE.import_env()
    thorough = tier == "thorough"
    engine._FUNCS["c04-episode"] = episode_item
    engine._FUNCS["c04-instance"] = instance_item
    engine._FUNCS["c04-schedule"] = schedule_item
    engine._FUNCS["c04-wrap"] = wrap_item
    viols = []
    # (1)
    items = []
    for v in (VARIANTS if thorough else VARIANTS[:2]):
        cfg = HE.gen_scenario(v)
        al = dirty_alphabet(cfg)
        depth = 2
        hs = [()]
        for d in range(1, depth + 1):
            hs += list(itertools.product(al, repeat=d))
        if thorough:
            # depth 3 with a tick (do-nothing) in between: a, 0, b
            hs += [(a, 0, b) for a in al for b in al]
            hs += [(a, "reset", b) for a in al[::2] for b in al[::2]]
        else:
            hs = [h for h in hs if len(h) < 2] if v is not VARIANTS[0] else hs
        items += [(v["name"], h) for h in hs]
        if v is VARIANTS[0]:
            # a whole idle episode of the insider scenario, then a new episode observed for 45 steps
            items.append(("iso-uc7-tap003", tuple([0] * (70 if thorough else 45)), 7, 45))
        # the boundary seed 0 (must re-seed like any other seed): after every single dirtying action and after the empty history
        if v is VARIANTS[0]:
            items += [(v["name"], h, 0) for h in hs if len(h) <= 1]
    steps = 0
    n_hist = len(items)
    for item, (n, v) in engine.pmap("c04-episode", episode_item, items, chunksize=2):
        steps += n
        for x in v:
            x.update(adapter="c04", params={"kind": "episode", "item": item}, history=list(item[1]), event=None)
        viols += v
    # (2)
    na, nb = (5, 3) if thorough else (3, 1)
    inst_items = []
    for pair in (PAIRS if thorough else ("same", "nmne-off-in-B", "no-nmne-section-in-B", "other-topology", "stochastic", "masked-other-map")):
        # B must live long enough to see malicious traffic of its own when B is the possible victim
        nbp = max(nb, 3) if pair == "no-nmne-section-in-B" else nb
        for order in interleavings(na + 2, nbp + 3):
            inst_items.append((pair, order, na, nbp))
    n_inter = len(inst_items)
    for item, (n, v) in engine.pmap("c04-instance", instance_item, inst_items, chunksize=4):
        steps += n
        for x in v:
            x.update(adapter="c04", params={"kind": "instance", "item": item}, history=list(item[1]), event=None)
        viols += v
    # (3)
    sch_items = [(n, e, True) for n in ("sched_placeholders", "sched_mini") for e in ((2, 3, 4) if thorough else (3,))]
    if thorough:
        sch_items += [("sched_uc7_variants", 3, True)]
    for item, (n, v) in engine.pmap("c04-schedule", schedule_item, sch_items, chunksize=1):
        steps += n
        for x in v:
            x.update(adapter="c04", params={"kind": "schedule", "item": item}, history=[], event=None)
        viols += v
    wrap_items = [("generated-with-router", 2), ("sched_mini", 2), ("sched_placeholders", 4)] + ([("sched_uc7_variants", 20)] if thorough else [])
    for item, (n, v) in engine.pmap("c04-wrap", wrap_item, wrap_items, chunksize=1):
        steps += n
        for x in v:
            x.update(adapter="c04", params={"kind": "wrap", "item": item}, history=[], event=None)
        viols += v
    seen = {}
    for v in viols:
        seen.setdefault((v["clause"], v["signature"]), v)
    cov = {"states": n_hist + n_inter + len(sch_items) + len(wrap_items), "transitions": steps, "traces_validated_against_impl": steps,
           "samples": [{"dirty_history": list(items[min(len(items) - 1, 30)][1])}, {"interleaving": "".join(inst_items[len(inst_items) // 2][1])}],
           "exhaustive": True, "dirty_histories": n_hist, "interleavings": n_inter, "schedule_runs": len(sch_items),
           "explanation": "all dirty histories up to the bound x differential comparison with a fresh environment; all order-preserving "
                          "interleavings of two instances' programs; scheduled episodes after dirty vs clean earlier episodes"}
    return {"violations": list(seen.values()), "coverage": cov, "level": "model_checking",
            "assumptions": ["'like a newly constructed one' is read as: a fresh environment object brought to the same episode by reset(seed) "
                            "(the constructor's own pre-reset episode is not compared)",
                            "digests compare nested observation, reward, truncation and every agent's action/parameters/response (opaque ids normalised)"],
            "summary": "dirty histories=%d interleavings=%d schedule runs=%d steps compared=%d wall=%.0fs" % (
                n_hist, n_inter, len(sch_items), steps, time.time() - t0)}
