"""C08 — packets reach exactly their addressee via best routes, and forwarding ends.

(1) Route choice, exhaustive product on real ``RouteTable`` objects: every table of <= 3 (thorough: <= 4) routes drawn
    from prefixes {10/8, 10.1/16, 10.1.1/24, 10.1.1.128/25} x metrics {0,1} with distinct next hops, in every insertion
    order, x {no default, default set first, default set last, default set twice} x a covering set of destinations
    (inside each prefix, on every boundary, outside all), against an integer-arithmetic reference (longest prefix;
    lowest metric on ties; default as last resort; None if nothing matches; an exact tie accepts either route).
(2) Explicit-state BFS (replay from history) over small real networks built through the Python API: a switched LAN,
    chains of 1-3 routers (static routes with decoy routes / default routes, /30 and /24 inter-router links), a chain
    with a firewall, two routers sharing a switched LAN with a host (two port orders), a wireless router pair, a
    router whose static route points at a host, two firewalls in one broadcast domain (back to back / via a switch with a
    host), a chain whose second router has no route back (replies cannot return) and two routers joined by two parallel
    /30 links with asymmetric routes.  Events: ping(a->b) for all ordered host pairs, pings to router
    addresses / unused addresses / addresses outside every subnet (the two-router default-route loop), a DNS lookup
    against a dns-server, NIC / router-port / switch-port toggles, node power toggles (durations 0), tick.  Cold ARP
    caches at the start; warm states arise by chaining.
(3) ICMP identifier answers: the first event of every history scripts ``secrets.randbits(16)`` over {0,1,65535}^2
    (first answer, every later answer) through mc.seams; then pings host->host, host->router, pings=2.

Oracles: (a) success of every exchange == an independent reachability model (walk over powered-on nodes, enabled
interfaces, links/switches/air, host default gateway, per-router connected networks then reference LPM, ACL permits,
request and reply); (b) class-level monitor on SoftwareManager.receive_payload_from_session_manager: a payload whose
destination address is not a broadcast address is handed to software only on the node owning it; (c) per Frame object:
TTL lower at every receiving interface and at every routing hop, no frame with TTL < 1 handed on; (d) every event
returns: more than MAX_NESTING frames in flight inside one another (a frame can cross at most 63 interfaces), more than
MAX_TX transmissions in one event, or a recursion error are termination violations; (e) per hop: every frame a router
forwards leaves through the interface, and to the MAC of the next hop, that connected networks / the reference LPM give -
independent of what the router's ARP cache has learnt from transit traffic.
"""
from __future__ import annotations

import itertools
import os
import sys
import time
from ipaddress import IPv4Address

from .. import common, engine, seams
from .. import harness_sim as H
from ..engine import violation

common.import_sim()

from primaite.simulator.network.airspace import AirSpace  # noqa: E402
from primaite.simulator.network.hardware.base import Link  # noqa: E402
from primaite.simulator.network.hardware.nodes.host.host_node import NIC, HostNode  # noqa: E402
from primaite.simulator.network.hardware.nodes.network.firewall import Firewall  # noqa: E402
from primaite.simulator.network.hardware.nodes.network.router import (  # noqa: E402
    ACLAction,
    Router,
    RouterInterface,
    RouteTable,
)
from primaite.simulator.network.hardware.nodes.network.switch import Switch, SwitchPort  # noqa: E402
from primaite.simulator.network.hardware.nodes.network.wireless_router import (  # noqa: E402
    WirelessAccessPoint,
    WirelessRouter,
)
from primaite.simulator.network.protocols.icmp import ICMPPacket  # noqa: E402
from primaite.simulator.network.transmission.data_link_layer import EthernetHeader, Frame  # noqa: E402
from primaite.simulator.network.transmission.network_layer import IPPacket  # noqa: E402
from primaite.simulator.system.core.software_manager import SoftwareManager  # noqa: E402
from primaite.simulator.system.core.sys_log import SysLog  # noqa: E402
from primaite.simulator.system.services.dns.dns_server import DNSServer  # noqa: E402

PROP = "C08"

# The deterministic cut of an unbounded forwarding loop (MAX_NESTING frames in flight inside one another) must fire
# before Python's own recursion limit does (about 10 interpreter frames per frame in flight).
if sys.getrecursionlimit() < 6000:
    sys.setrecursionlimit(6000)


def _ip(s) -> int:
    return int(IPv4Address(str(s)))


# ======================================================================================================================
# (1) route choice: product over real RouteTable objects
# ======================================================================================================================
PREFIXES = [("10.0.0.0", "255.0.0.0"), ("10.1.0.0", "255.255.0.0"), ("10.1.1.0", "255.255.255.0"),
            ("10.1.1.128", "255.255.255.128")]
PREFIXES_T = PREFIXES + [("10.1.1.77", "255.255.255.0")]  # host bits set: the same network as 10.1.1.0/24
METRICS = [0, 1]
DEFAULT_MODES = ["none", "first", "last", "twice"]
DESTS = ["9.255.255.255", "11.0.0.0", "192.168.1.1", "0.0.0.0",                       # outside all
         "10.0.0.0", "10.0.255.255", "10.2.0.0", "10.255.255.255",                     # /8 only
         "10.1.0.0", "10.1.0.255", "10.1.2.0", "10.1.255.255",                         # /16, not /24
         "10.1.1.0", "10.1.1.77", "10.1.1.127",                                        # /24, not /25
         "10.1.1.128", "10.1.1.200", "10.1.1.255"]                                     # /25
DEF_NH, DEF_NH_OLD = "10.9.9.9", "10.9.9.8"


def route_nh(i: int) -> str:
    return "10.9.0.%d" % (i + 1)


def ref_lookup(routes, default_nh, dst):
    """routes: [(addr, mask, next_hop, metric)] -> set of acceptable next hops (a singleton unless an exact tie)."""
    d = _ip(dst)
    best_key, best = None, set()
    for addr, mask, nh, metric in routes:
        m = _ip(mask)
        if (d & m) != (_ip(addr) & m):
            continue
        key = (bin(m).count("1"), -float(metric))  # longer prefix first, then lower metric
        if best_key is None or key > best_key:
            best_key, best = key, {nh}
        elif key == best_key:
            best.add(nh)
    if best:
        return best
    return {default_nh} if default_nh else {None}


def _route_cat(routes, default_nh, dst, nh):
    if nh is None:
        return "none"
    if nh in (DEF_NH, DEF_NH_OLD) and nh not in [r[2] for r in routes]:
        return "default" if nh == default_nh else "stale-default"
    d = _ip(dst)
    for addr, mask, rnh, metric in routes:
        if rnh == nh:
            m = _ip(mask)
            if (d & m) != (_ip(addr) & m):
                return "non-matching-route"
            exp = ref_lookup(routes, default_nh, dst)
            for a2, m2, nh2, me2 in routes:
                if nh2 in exp:
                    if bin(_ip(m2)).count("1") > bin(m).count("1"):
                        return "shorter-prefix"
                    if me2 < metric:
                        return "higher-metric"
            return "route"
    return "unknown-entry"


def eval_table(item):
    """item = (prefix set name, ((prefix index, metric), ...), default mode) -> (lookups, non-trivial, violations)."""
    pset, seq, mode = item
    prefixes = PREFIXES_T if pset == "T" else PREFIXES
    rt = RouteTable(sys_log=SysLog("c08"))
    routes = []
    if mode in ("first", "twice"):
        rt.set_default_route_next_hop_ip_address(IPv4Address(DEF_NH_OLD if mode == "twice" else DEF_NH))
    for i, (pi, metric) in enumerate(seq):
        addr, mask = prefixes[pi]
        rt.add_route(address=addr, subnet_mask=mask, next_hop_ip_address=route_nh(i), metric=metric)
        routes.append((addr, mask, route_nh(i), metric))
    if mode in ("last", "twice"):
        rt.set_default_route_next_hop_ip_address(IPv4Address(DEF_NH))
    default_nh = None if mode == "none" else DEF_NH
    viols, n, nontrivial = [], 0, 0
    for dst in DESTS:
        exp = ref_lookup(routes, default_nh, dst)
        for form in (IPv4Address(dst), dst):
            n += 1
            got = rt.find_best_route(form)
            nh = None if got is None else str(got.next_hop_ip_address)
            if len(seq) > 1 and None not in exp and default_nh not in exp:
                nontrivial += 1
            ok = nh in exp
            if ok and got is not None and not any(got is r for r in rt.routes) and got is not rt.default_route:
                ok = False
            if not ok:
                e = sorted(exp, key=str)[0]
                viols.append(violation(
                    "best_route", "find_best_route:expected=%s:got=%s" % (
                        _route_cat(routes, default_nh, dst, e), _route_cat(routes, default_nh, dst, nh)),
                    "routes (insertion order) %s default=%s destination %s (%s): expected next hop in %s, got %s" % (
                        routes, default_nh, dst, type(form).__name__, sorted(map(str, exp)), nh)))
        if len(rt.routes) != len(seq):
            viols.append(violation("best_route", "find_best_route:mutates-table", "table has %d routes after look-ups, %d were added" % (
                len(rt.routes), len(seq))))
    return n, nontrivial, viols[:4]


def check_from_config(variant: str):
    """The routes / default_route of a router (firewall) config dict reach the table that find_best_route consults."""
    sets = {"routes+default": ([(0, 1), (1, 0), (2, 1), (2, 0), (3, 1)], True), "routes-only": ([(3, 0), (1, 1), (1, 0)], False),
            "default-only": ([], True)}
    seq, has_default = sets[variant.split(":")[1]]
    routes = [(PREFIXES[pi][0], PREFIXES[pi][1], route_nh(i), m) for i, (pi, m) in enumerate(seq)]
    cfg = {"hostname": "r", "start_up_duration": 0,
           "routes": [{"address": a, "subnet_mask": k, "next_hop_ip_address": nh, "metric": m} for a, k, nh, m in routes]}
    if has_default:
        cfg["default_route"] = {"next_hop_ip_address": DEF_NH}
    if variant.startswith("firewall"):
        cfg.update(type="firewall", ports={"external_port": {"ip_address": "172.16.0.1"}, "internal_port": {"ip_address": "172.16.1.1"}})
        node = Firewall.from_config(cfg)
    else:
        cfg.update(type="router", num_ports=2)
        node = Router.from_config(cfg)
    viols, n = [], 0
    for dst in DESTS:
        exp = ref_lookup(routes, DEF_NH if has_default else None, dst)
        got = node.route_table.find_best_route(dst)
        nh = None if got is None else str(got.next_hop_ip_address)
        n += 1
        if nh not in exp:
            viols.append(violation("best_route", "from_config:%s" % variant.split(":")[0],
                                   "config %s destination %s: expected next hop in %s, got %s" % (cfg, dst, sorted(map(str, exp)), nh)))
    return n, viols[:2]


CONFIG_VARIANTS = ["%s:%s" % (k, v) for k in ("router", "firewall") for v in ("routes+default", "routes-only", "default-only")]


def route_items(thorough: bool):
    pset = "T" if thorough else "Q"
    kinds = [(pi, m) for pi in range(len(PREFIXES_T if thorough else PREFIXES)) for m in METRICS]
    out = []
    for n in range(0, 5 if thorough else 4):
        for seq in itertools.product(kinds, repeat=n):
            for mode in DEFAULT_MODES:
                out.append((pset, tuple(seq), mode))
    return out


# ======================================================================================================================
# (2) topologies: a declarative spec (what the reference model reads) and a builder of real objects
# ======================================================================================================================
M24, M30 = "255.255.255.0", "255.255.255.252"
DOMAIN = "c08.example"
PERMIT_ALL = [("PERMIT", None, None)]  # ACL rule = (action, protocol or None, source address or None); implicit DENY


def _host(ip, gw=None, mask=M24, dns=None):
    return {"kind": "host", "ifs": {1: (ip, mask)}, "gw": gw, "dns": dns}


def _router(ifs, routes=(), default=None, kind="router"):
    return {"kind": kind, "ifs": dict(ifs), "routes": list(routes), "default": default}


def _pings(hosts, spec):
    return [("ping", a, b) for a in hosts for b in hosts if a != b]


def topo(name: str):
    """The spec of topology ``name``: nodes, links, events.  Built only from literals (independent of the real objects)."""
    A, B, Mh = "10.0.1.2", "10.0.2.2", "10.0.3.2"
    n, links, air = {}, [], []
    ev = []
    dns_ip, dns_host = B, "b"
    if name == "lan":
        n["sw"] = {"kind": "switch", "ports": 3}
        n["a"], n["b"], n["c"] = _host("10.0.1.2", dns="10.0.1.3"), _host("10.0.1.3"), _host("10.0.1.4", dns="10.0.1.3")
        links = [("a", 1, "sw", 1), ("b", 1, "sw", 2), ("c", 1, "sw", 3)]
        dns_ip = "10.0.1.3"
        ev = _pings(["a", "b", "c"], n) + [("pingip", "a", "10.0.1.9"), ("pingip", "a", "10.9.9.9"), ("dns", "a"), ("dns", "c"),
                                          ("nic", "a", 1), ("nic", "sw", 2), ("pwr", "b"), ("pwr", "sw"), ("inject", "c", "b")]
    elif name == "r1":
        n["a"], n["b"], n["m"] = _host(A, "10.0.1.1", dns=B), _host(B, "10.0.2.1"), _host(Mh, "10.0.3.1", dns=B)
        n["r1"] = _router({1: ("10.0.1.1", M24), 2: ("10.0.2.1", M24), 3: ("10.0.3.1", M24)})
        links = [("a", 1, "r1", 1), ("b", 1, "r1", 2), ("m", 1, "r1", 3)]
        ev = _pings(["a", "b", "m"], n) + [("pingip", "a", "10.0.1.1"), ("pingip", "a", "10.0.2.1"), ("pingip", "a", "10.0.2.9"),
                                          ("pingip", "a", "10.9.9.9"), ("dns", "a"), ("dns", "m"),
                                          ("nic", "a", 1), ("nic", "r1", 2), ("pwr", "b"), ("pwr", "r1")]
    elif name in ("r2s", "r2d"):
        mask = M30 if name == "r2s" else M24
        n["a"], n["b"], n["m"] = _host(A, "10.0.1.1", dns=B), _host(B, "10.0.2.1"), _host(Mh, "10.0.3.1", dns=B)
        if name == "r2s":
            # static routes; decoys: a shorter prefix and a same-prefix higher-metric route, both inserted first and
            # both pointing at an address nobody owns - the packet only arrives if the best route is the one used
            r1 = [("10.0.0.0", "255.255.0.0", "10.0.1.77", 0), ("10.0.2.0", M24, "10.0.1.77", 1),
                  ("10.0.2.0", M24, "10.0.12.2", 0), ("10.0.3.0", M24, "10.0.12.2", 0)]
            r2 = [("10.0.1.0", "255.255.255.128", "10.0.12.1", 1), ("10.0.1.0", M24, "10.0.2.77", 0)]
            d1 = d2 = None
        else:
            r1 = r2 = []
            d1, d2 = "10.0.12.2", "10.0.12.1"  # each router's default route points at the other: a loop for unknown nets
        n["r1"] = _router({1: ("10.0.1.1", M24), 2: ("10.0.12.1", mask)}, r1, d1)
        n["r2"] = _router({1: ("10.0.2.1", M24), 2: ("10.0.12.2", mask), 3: ("10.0.3.1", M24)}, r2, d2)
        links = [("a", 1, "r1", 1), ("b", 1, "r2", 1), ("m", 1, "r2", 3), ("r1", 2, "r2", 2)]
        ev = _pings(["a", "b", "m"], n) + [("pingip", "a", "10.0.12.2"), ("pingip", "b", "10.0.1.1"), ("pingip", "a", "10.0.2.9"),
                                          ("pingip", "a", "10.9.9.9"), ("dns", "a"), ("dns", "m"),
                                          ("nic", "a", 1), ("nic", "r1", 2), ("pwr", "b"), ("pwr", "r2")]
        if name == "r2d":
            ev.insert(10, ("pingip", "a", "10.0.12.9"))  # unused address of the /24 between the routers
    elif name in ("r3s", "r3d"):
        n["a"], n["b"], n["m"] = _host(A, "10.0.1.1", dns=B), _host(B, "10.0.2.1"), _host(Mh, "10.0.3.1", dns=B)
        if name == "r3s":
            r1 = [("10.0.0.0", "255.255.0.0", "10.0.1.77", 0), ("10.0.2.0", M24, "10.0.12.2", 0), ("10.0.3.0", M24, "10.0.12.2", 0),
                  ("10.0.23.0", M24, "10.0.12.2", 0)]
            r3 = [("10.0.1.0", M24, "10.0.23.1", 0), ("10.0.3.0", M24, "10.0.23.1", 0), ("10.0.12.0", M30, "10.0.23.1", 0)]
            d1 = d3 = None
        else:
            r1 = r3 = []
            d1, d3 = "10.0.12.2", "10.0.23.1"
        r2 = [("10.0.1.0", M24, "10.0.12.1", 0), ("10.0.2.0", M24, "10.0.23.2", 0)]
        n["r1"] = _router({1: ("10.0.1.1", M24), 2: ("10.0.12.1", M30)}, r1, d1)
        n["r2"] = _router({1: ("10.0.12.2", M30), 2: ("10.0.23.1", M24), 3: ("10.0.3.1", M24)}, r2)
        n["r3"] = _router({1: ("10.0.2.1", M24), 2: ("10.0.23.2", M24)}, r3, d3)
        links = [("a", 1, "r1", 1), ("b", 1, "r3", 1), ("m", 1, "r2", 3), ("r1", 2, "r2", 1), ("r2", 2, "r3", 2)]
        ev = _pings(["a", "b", "m"], n) + [("pingip", "a", "10.0.23.2"), ("pingip", "b", "10.0.12.1"), ("pingip", "a", "10.9.9.9"),
                                          ("dns", "a"), ("dns", "m"), ("nic", "a", 1), ("nic", "r2", 2), ("pwr", "b"), ("pwr", "r2")]
        if name == "r3s":
            ev.insert(9, ("pingip", "a", "10.0.23.9"))
    elif name == "fw":
        # a - r1 =/30= fw(external | internal) - b ; m on r1.  internal-inbound ACL: ICMP from anywhere, TCP only from a.
        n["a"], n["b"], n["m"] = _host(A, "10.0.1.1", dns=B), _host(B, "10.0.2.1"), _host(Mh, "10.0.3.1", dns=B)
        n["r1"] = _router({1: ("10.0.1.1", M24), 2: ("10.0.12.1", M30), 3: ("10.0.3.1", M24)}, [("10.0.2.0", M24, "10.0.12.2", 0)])
        n["fw"] = _router({1: ("10.0.12.2", M30), 2: ("10.0.2.1", M24)}, [("10.0.1.0", M24, "10.0.12.1", 0)], "10.0.12.1", kind="firewall")
        n["fw"]["acl"] = {"internal_inbound": [("PERMIT", "icmp", None), ("PERMIT", "tcp", A)], "internal_outbound": PERMIT_ALL,
                          "external_inbound": PERMIT_ALL, "external_outbound": PERMIT_ALL}
        links = [("a", 1, "r1", 1), ("m", 1, "r1", 3), ("r1", 2, "fw", 1), ("b", 1, "fw", 2)]
        ev = _pings(["a", "b", "m"], n) + [("pingip", "a", "10.0.2.1"), ("pingip", "b", "10.0.12.1"), ("pingip", "a", "10.0.2.9"),
                                          ("dns", "a"), ("dns", "m"), ("nic", "fw", 2), ("nic", "r1", 2), ("pwr", "b"), ("pwr", "fw")]
    elif name in ("sw2r-rrm", "sw2r-mrr"):
        # two routers and host m share the switched LAN 10.0.12.0/24; the variants differ in the order of the switch ports
        n["sw"] = {"kind": "switch", "ports": 3}
        n["a"], n["b"], n["m"] = _host(A, "10.0.1.1", dns=B), _host(B, "10.0.2.1"), _host("10.0.12.3", "10.0.12.1", dns=B)
        n["r1"] = _router({1: ("10.0.1.1", M24), 2: ("10.0.12.1", M24)}, [("10.0.2.0", M24, "10.0.12.2", 0)])
        n["r2"] = _router({1: ("10.0.2.1", M24), 2: ("10.0.12.2", M24)}, [("10.0.1.0", M24, "10.0.12.1", 0)])
        order = ["r1", "r2", "m"] if name == "sw2r-rrm" else ["m", "r1", "r2"]
        links = [("a", 1, "r1", 1), ("b", 1, "r2", 1)]
        for i, d in enumerate(order):
            links.append((d, 1 if d == "m" else 2, "sw", i + 1))
        ev = _pings(["a", "b", "m"], n) + [("pingip", "a", "10.0.12.2"), ("pingip", "m", "10.0.12.2"), ("pingip", "a", "10.0.12.9"),
                                          ("dns", "a"), ("dns", "m"), ("nic", "m", 1), ("nic", "r2", 2), ("pwr", "m"), ("pwr", "b")]
    elif name == "wifi":
        n["a"], n["b"] = _host("192.168.0.2", "192.168.0.1", dns="192.168.2.2"), _host("192.168.2.2", "192.168.2.1")
        n["r1"] = _router({1: ("192.168.1.1", M24), 2: ("192.168.0.1", M24)}, [("192.168.2.0", M24, "192.168.1.2", 0)], kind="wrouter")
        n["r2"] = _router({1: ("192.168.1.2", M24), 2: ("192.168.2.1", M24)}, [("192.168.0.0", M24, "192.168.1.1", 0)], kind="wrouter")
        links = [("a", 1, "r1", 2), ("b", 1, "r2", 2)]
        air = [("r1", 1), ("r2", 1)]
        dns_ip = "192.168.2.2"
        ev = _pings(["a", "b"], n) + [("pingip", "a", "192.168.1.2"), ("pingip", "a", "192.168.1.9"), ("pingip", "a", "10.9.9.9"),
                                     ("dns", "a"), ("nic", "r2", 1), ("nic", "a", 1), ("pwr", "b")]
    elif name == "hostnh":
        # the router's static route to 10.0.9.0/24 names host b (which runs the DNS server) as its next hop
        n["a"], n["b"] = _host(A, "10.0.1.1", dns="10.0.9.9"), _host(B, "10.0.2.1")
        n["r1"] = _router({1: ("10.0.1.1", M24), 2: ("10.0.2.1", M24)}, [("10.0.9.0", M24, B, 0)])
        links = [("a", 1, "r1", 1), ("b", 1, "r1", 2)]
        dns_ip = "10.0.9.9"
        ev = _pings(["a", "b"], n) + [("pingip", "a", "10.0.9.9"), ("dns", "a"), ("nic", "b", 1)]
    elif name in ("fw2", "fw2sw"):
        # two firewalls in one broadcast domain: a - fw1(external | internal) =10.0.12.0/24= fw2(external | internal) - b;
        # fw2sw: the shared subnet is a switch (ports fw1, fw2, m) with host m on it.  Every list permits everything.
        n["a"], n["b"] = _host(A, "10.0.1.1", dns=B), _host(B, "10.0.2.1")
        n["fw1"] = _router({1: ("10.0.1.1", M24), 2: ("10.0.12.1", M24)}, [("10.0.2.0", M24, "10.0.12.2", 0)], kind="firewall")
        n["fw2"] = _router({1: ("10.0.12.2", M24), 2: ("10.0.2.1", M24)}, [("10.0.1.0", M24, "10.0.12.1", 0)], kind="firewall")
        for f in ("fw1", "fw2"):
            n[f]["acl"] = {k: PERMIT_ALL for k in ("internal_inbound", "internal_outbound", "external_inbound", "external_outbound")}
        links = [("a", 1, "fw1", 1), ("b", 1, "fw2", 2)]
        ev = _pings(["a", "b"], n) + [("pingip", "a", "10.0.12.9"), ("pingip", "b", "10.0.12.9"), ("pingip", "a", "10.0.12.2"),
                                     ("pingip", "b", "10.0.12.1"), ("dns", "a"), ("nic", "fw2", 1), ("pwr", "b")]
        if name == "fw2":
            links.append(("fw1", 2, "fw2", 1))
        else:
            n["sw"] = {"kind": "switch", "ports": 3}
            n["m"] = _host("10.0.12.3", "10.0.12.1", dns=B)
            links += [("fw1", 2, "sw", 1), ("fw2", 1, "sw", 2), ("m", 1, "sw", 3)]
            ev = _pings(["a", "b", "m"], n) + ev[2:] + [("dns", "m"), ("pwr", "m")]
    elif name == "noreturn":
        # r1 knows the way to b's subnet, r2 has no route (and no default) back to a's subnet: nothing a sends beyond r1 is answered
        n["a"], n["b"] = _host(A, "10.0.1.1", dns=B), _host(B, "10.0.2.1")
        n["r1"] = _router({1: ("10.0.1.1", M24), 2: ("10.0.12.1", M30)}, [("10.0.2.0", M24, "10.0.12.2", 0)])
        n["r2"] = _router({1: ("10.0.2.1", M24), 2: ("10.0.12.2", M30)})
        links = [("a", 1, "r1", 1), ("b", 1, "r2", 1), ("r1", 2, "r2", 2)]
        ev = _pings(["a", "b"], n) + [("pingip", "a", "10.0.12.2"), ("pingip", "a", "10.0.12.1"), ("pingip", "b", "10.0.12.1"),
                                     ("dns", "a"), ("nic", "r1", 2), ("pwr", "b")]
    elif name == "asym":
        # two parallel /30 links between r1 and r2: r1 routes towards b over link 1 (ports 2), r2 routes back over link 2 (ports 3)
        n["a"], n["b"] = _host(A, "10.0.1.1", dns=B), _host(B, "10.0.2.1")
        n["r1"] = _router({1: ("10.0.1.1", M24), 2: ("10.0.12.1", M30), 3: ("10.0.13.1", M30)}, [("10.0.2.0", M24, "10.0.12.2", 0)])
        n["r2"] = _router({1: ("10.0.2.1", M24), 2: ("10.0.12.2", M30), 3: ("10.0.13.2", M30)}, [("10.0.1.0", M24, "10.0.13.1", 0)])
        links = [("a", 1, "r1", 1), ("b", 1, "r2", 1), ("r1", 2, "r2", 2), ("r1", 3, "r2", 3)]
        ev = _pings(["a", "b"], n) + [("pingip", "a", "10.0.13.2"), ("pingip", "b", "10.0.12.1"), ("dns", "a"),
                                     ("nic", "r2", 3), ("nic", "r1", 2), ("pwr", "b")]
    elif name in ("offlink", "offlink2"):
        # static routes whose next hop is NOT on a connected network and cannot be resolved through the table either:
        # offlink: the route to b's subnet names r2's far-side address (inside that very subnet); offlink2: two routes whose
        # next hops lie in each other's prefix.  Nothing can be delivered through them - and handling the packet must still end.
        n["a"], n["b"] = _host(A, "10.0.1.1", dns=B), _host(B, "10.0.2.1")
        r1 = [("10.0.2.0", M24, "10.0.2.1", 0)] if name == "offlink" else [("10.0.2.0", M24, "10.0.3.9", 0), ("10.0.3.0", M24, "10.0.2.9", 0)]
        n["r1"] = _router({1: ("10.0.1.1", M24), 2: ("10.0.12.1", M30)}, r1)
        n["r2"] = _router({1: ("10.0.2.1", M24), 2: ("10.0.12.2", M30)}, [("10.0.1.0", M24, "10.0.12.1", 0)])
        links = [("a", 1, "r1", 1), ("b", 1, "r2", 1), ("r1", 2, "r2", 2)]
        ev = _pings(["a", "b"], n) + [("pingip", "a", "10.0.2.1"), ("pingip", "a", "10.0.3.7"), ("pingip", "a", "10.0.12.2"),
                                     ("pingip", "b", "10.0.12.1"), ("dns", "a"), ("nic", "r1", 2), ("pwr", "b")]
    else:
        raise ValueError(name)
    return {"name": name, "nodes": n, "links": links, "air": air, "dns_host": dns_host, "dns_ip": dns_ip,
            "events": [("tick",)] + [tuple(e) for e in ev]}


TOPOS = ["lan", "r1", "r2s", "r2d", "r3s", "r3d", "fw", "sw2r-rrm", "sw2r-mrr", "wifi", "hostnh", "fw2", "fw2sw", "noreturn", "asym", "offlink", "offlink2"]


def build_net(spec) -> H.SimSut:
    s = H.SimSut()
    real = {}
    for name, d in spec["nodes"].items():
        k = d["kind"]
        if k == "host":
            ip, mask = d["ifs"][1]
            cfg = {"dns_server": d["dns"]} if d.get("dns") else {}
            real[name] = H.host("server" if name == spec["dns_host"] else "computer", name, ip, gw=d["gw"], mask=mask, **cfg)
        elif k == "switch":
            real[name] = H.switch(name, num_ports=d["ports"])
        elif k == "router":
            real[name] = H.router(name, d["ifs"])
        elif k == "firewall":
            cfg = {"type": "firewall", "hostname": name, "start_up_duration": 0, "shut_down_duration": 0,
                   "ports": {"external_port": {"ip_address": d["ifs"][1][0], "subnet_mask": d["ifs"][1][1]},
                             "internal_port": {"ip_address": d["ifs"][2][0], "subnet_mask": d["ifs"][2][1]}}}
            fw = Firewall.from_config(cfg)
            for acl_name, rules in d["acl"].items():
                acl = getattr(fw, acl_name + "_acl")
                for i, (action, proto, src) in enumerate(rules):
                    acl.add_rule(action=ACLAction[action], protocol=proto, src_ip_address=src, position=i + 1)
            real[name] = fw
        elif k == "wrouter":
            r = WirelessRouter.from_config(config={"type": "wireless-router", "hostname": name, "start_up_duration": 0,
                                                   "shut_down_duration": 0}, airspace=s.net.airspace)
            r.power_on()
            r.configure_wireless_access_point(d["ifs"][1][0], d["ifs"][1][1])
            r.configure_router_interface(d["ifs"][2][0], d["ifs"][2][1])
            r.acl.add_rule(action=ACLAction.PERMIT, position=1)
            real[name] = r
        else:
            raise ValueError(k)
    for name, node in real.items():
        s.nodes[name] = node
        if node not in s.net.nodes.values():
            s.net.add_node(node)
    for a, pa, b, pb in spec["links"]:
        H.connect(s, real[a], pa, real[b], pb)
    for name, d in spec["nodes"].items():
        if d["kind"] in ("router", "firewall", "wrouter"):
            for port in d["ifs"]:
                real[name].network_interface[port].enable()
            for addr, mask, nh, metric in d["routes"]:
                real[name].route_table.add_route(address=addr, subnet_mask=mask, next_hop_ip_address=nh, metric=metric)
            if d["default"]:
                real[name].route_table.set_default_route_next_hop_ip_address(IPv4Address(d["default"]))
    srv = real[spec["dns_host"]]
    srv.software_manager.install(DNSServer)
    srv.software_manager.software["dns-server"].dns_register(DOMAIN, IPv4Address("10.99.99.99"))
    # cold start: whatever the hello messages exchanged while the links were being plugged in is forgotten
    for node in real.values():
        arp = node.software_manager.software.get("arp")
        if arp is not None:
            arp.clear()
        if hasattr(node, "mac_address_table"):
            node.mac_address_table.clear()
        node.session_manager.clear()
    s.start()
    return s


# ======================================================================================================================
# Reference reachability model (reads the spec; of the live objects only: which nodes are ON, which interfaces enabled)
# ======================================================================================================================
class Flags:
    """Snapshot of the power / interface state the exchange starts from."""

    def __init__(self, spec, sut):
        self.on, self.up, self.svc = {}, {}, {}
        for name in spec["nodes"]:
            node = sut.nodes[name]
            self.on[name] = node.operating_state.name == "ON"
            for port, nic in node.network_interface.items():
                self.up[(name, port)] = bool(nic.enabled) and self.on[name]
            for sw in ("dns-client", "dns-server", "icmp"):
                o = node.software_manager.software.get(sw)
                self.svc[(name, sw)] = o is not None and o.operating_state.name == "RUNNING"


class Reach:
    def __init__(self, spec):
        self.spec = spec
        self.nodes = spec["nodes"]
        self.peer = {}
        for a, pa, b, pb in spec["links"]:
            self.peer[(a, pa)] = (b, pb)
            self.peer[(b, pb)] = (a, pa)
        self.air = list(spec["air"])
        self.owner = {}  # address -> (node, port)
        for name, d in self.nodes.items():
            for port, (ip, mask) in d.get("ifs", {}).items():
                self.owner[ip] = (name, port)

    @staticmethod
    def in_net(ip, net_ip, mask):
        m = _ip(mask)
        return (_ip(ip) & m) == (_ip(net_ip) & m)

    def l3_neighbours(self, f: Flags, start):
        """(node, port, switches crossed) of every layer-3 interface in the broadcast domain of interface ``start``."""
        out, seen, todo = [], {start}, [(start, 0)]
        while todo:
            (node, port), hops = todo.pop(0)
            nxt = []
            p = self.peer.get((node, port))
            if p is not None and f.up.get(p):
                nxt.append(p)
            if (node, port) in self.air:
                nxt += [x for x in self.air if x != (node, port) and f.up.get(x)]
            for q in nxt:
                if q in seen:
                    continue
                seen.add(q)
                if self.nodes[q[0]]["kind"] == "switch":
                    for sp in range(1, self.nodes[q[0]]["ports"] + 1):
                        if (q[0], sp) != q and f.up.get((q[0], sp)) and (q[0], sp) not in seen:
                            seen.add((q[0], sp))
                            todo.append(((q[0], sp), hops + 1))
                else:
                    out.append((q[0], q[1], hops))
        return out

    def acl_ok(self, rules, proto, src):
        for action, rp, rs in rules:
            if (rp is None or rp == proto) and (rs is None or rs == src):
                return action == "PERMIT"
        return False

    def permits(self, node, in_port, proto, src, dst_is_own):
        d = self.nodes[node]
        if d["kind"] != "firewall":
            return True  # harness routers carry a permit-all rule
        acl = d["acl"]
        if in_port == 1:  # external
            if not self.acl_ok(acl["external_inbound"], proto, src):
                return False
            return dst_is_own or self.acl_ok(acl["internal_inbound"], proto, src)
        if not self.acl_ok(acl["internal_outbound"], proto, src):
            return False
        return dst_is_own or self.acl_ok(acl["external_outbound"], proto, src)

    def next_hop(self, node, dst):
        """(out port, next-hop address) at ``node`` for ``dst`` or (None, reason)."""
        d = self.nodes[node]
        if d["kind"] == "host":
            ip, mask = d["ifs"][1]
            if self.in_net(dst, ip, mask):
                return 1, dst
            if d["gw"]:
                return 1, d["gw"]
            return None, "no-gateway"
        for port in sorted(d["ifs"]):
            ip, mask = d["ifs"][port]
            if self.in_net(dst, ip, mask):
                return port, dst
        nhs = ref_lookup(d["routes"], d["default"], dst)
        if nhs == {None}:
            return None, "no-route"
        if len(nhs) > 1:
            return None, "ambiguous-route"  # not used by the topologies
        nh = next(iter(nhs))
        for port in sorted(d["ifs"]):
            ip, mask = d["ifs"][port]
            if self.in_net(nh, ip, mask):
                return port, nh
        return None, "next-hop-not-connected"

    def walk(self, f: Flags, origin, dst, proto, src=None):
        """Follow one packet from ``origin``.  Returns (node that takes it or None, routers crossed, reason)."""
        src = src or self.nodes[origin]["ifs"][min(self.nodes[origin]["ifs"])][0]
        if not f.on.get(origin):
            return None, 0, "source-off: %s is not ON" % origin
        cur, in_port, ttl, routers, first = origin, None, 64, 0, True
        while True:
            d = self.nodes[cur]
            if not first:
                own = self.owner.get(dst)
                is_own = own is not None and own[0] == cur
                if d["kind"] == "host":
                    return (cur, routers, "delivered") if is_own else (None, routers, "not-addressee: host %s got it" % cur)
                if not self.permits(cur, in_port, proto, src, is_own):
                    return None, routers, "denied: by %s" % cur
                if is_own:
                    if not f.up.get(own):
                        return None, routers, "interface-down: addressed interface of %s" % cur
                    return cur, routers, "delivered"
                ttl -= 1
                routers += 1
                if ttl < 1:
                    return None, routers, "ttl-exhausted: loop"
            port, nh = self.next_hop(cur, dst)
            if port is None:
                return None, routers, "%s: at %s" % (nh, cur)
            if not f.up.get((cur, port)):
                return None, routers, "interface-down: %s port %s" % (cur, port)
            hit = [x for x in self.l3_neighbours(f, (cur, port)) if self.owner.get(nh) == (x[0], x[1])]
            if not hit:
                return None, routers, "nobody-owns-next-hop: %s on the segment of %s port %s" % (nh, cur, port)
            ttl -= 1 + hit[0][2]
            if ttl < 1:
                return None, routers, "ttl-exhausted: loop"
            cur, in_port, first = hit[0][0], hit[0][1], False

    def exchange(self, f: Flags, src_host, dst, proto):
        """Request from host ``src_host`` to address ``dst`` and the reply.  Returns (ok, shape, reason)."""
        who, n1, why = self.walk(f, src_host, dst, proto)
        if who is None:
            return False, "request", why
        src_ip = self.nodes[src_host]["ifs"][1][0]
        back, n2, why2 = self.walk(f, who, src_ip, proto, src=dst)
        if back != src_host:
            return False, "reply", why2
        return True, "to-%s:routers=%d" % (self.nodes[who]["kind"], n1), "ok"


# ======================================================================================================================
# Monitors (class-level wrappers; without a recorder they only forward)
# ======================================================================================================================
MAX_NESTING = 80   # frames in flight inside one another: a frame crosses at most 63 interfaces (TTL 64)
MAX_TX = 3000      # transmissions in one event
_REC = None
_MON_INSTALLED = False
BCAST_MAC = "ff:ff:ff:ff:ff:ff"
ROUTERISH = (Router,)  # Firewall and WirelessRouter are subclasses


class Runaway(BaseException):
    """Raised by the monitor to cut an unbounded forwarding loop (BaseException: no handler of the code swallows it)."""


class Recorder:
    def __init__(self, model=None, net=None):
        self.model, self.net = model, net  # reference model and live network: the per-hop egress oracle
        self.viols = []
        self.frames = {}   # id(frame) -> {"obj": frame (kept alive), "if_rx": {node: ttl}, "node_rx": {node: ttl}}
        self.depth = 0
        self.max_depth = 0
        self.tx = 0
        self.handed = 0    # payloads handed to software
        self.cycle = None

    def info(self, frame):
        fi = self.frames.get(id(frame))
        if fi is None:
            fi = self.frames[id(frame)] = {"obj": frame, "if_rx": {}, "node_rx": {}}
        return fi

    def add(self, v):
        if not any(x["clause"] == v["clause"] and x["signature"] == v["signature"] for x in self.viols):
            self.viols.append(v)


def _nname(node):
    return node.config.hostname if node is not None else "?"


def _impl(obj, meth):
    """Qualified name of the function implementing ``meth`` for ``obj`` (the wrapped original)."""
    f = getattr(type(obj), meth)
    return getattr(f, "_c08_orig", f).__qualname__


def _fkind(frame):
    p = frame.payload
    if type(p).__name__ == "ARPPacket":
        return "arp-request" if p.request else "arp-reply"
    if frame.icmp is not None:
        return "icmp-" + frame.icmp.icmp_type.name.lower().replace("_", "-")
    if frame.tcp is not None:
        return "tcp/%s" % frame.tcp.dst_port
    if frame.udp is not None:
        return "udp/%s" % frame.udp.dst_port
    return "other"


def _cycle_signature():
    """The repeating call cycle of the simulator at the point where the monitor cuts the recursion."""
    names = []
    fr = sys._getframe(2)
    while fr is not None and len(names) < 400:
        fn = fr.f_code.co_filename
        if "/primaite/" in fn:
            names.append(fr.f_code.co_qualname)
        fr = fr.f_back
    # names[0] is the innermost; smallest period of the innermost part
    for p in range(2, 60):
        if len(names) >= 3 * p and names[:p] == names[p:2 * p] == names[2 * p:3 * p]:
            cyc = names[:p]
            keep = [q for q in reversed(cyc) if q.split(".")[0] in (
                "Router", "Firewall", "WirelessRouter", "Switch", "HostNode", "ARP", "RouterARP", "HostARP", "ICMP", "RouterICMP")
                and not q.split(".")[-1].startswith("_")]
            # rotate so that the node-level method comes first
            for i, q in enumerate(keep):
                if q.split(".")[0] in ("Router", "Firewall", "WirelessRouter", "Switch", "HostNode"):
                    keep = keep[i:] + keep[:i]
                    break
            if any(q.split(".")[0] in ("Router", "Firewall", "WirelessRouter") for q in keep):
                keep = [q for q in keep if q.split(".")[0] not in ("Switch", "HostNode")]  # the medium in between is not the loop
            out = []
            for q in keep:
                if q not in out:
                    out.append(q)
            return ">".join(out) or "unidentified"
    return "no-period-found"


def _check_egress(rec, node, name, sender, frame):
    """A router forwards through the interface (and to the next hop) that connected networks / the reference LPM give -
    whatever its ARP cache has learnt from transit traffic."""
    dst = str(frame.ip.dst_ip_address)
    port, nh = rec.model.next_hop(name, dst)
    site = _impl(node, "process_frame")
    if port is None:
        rec.add(violation("forwarded_via_best_route", "%s:forwards-without-a-route" % site,
                          "%s forwarded a %s frame for %s through port %s although it has no connected network, route or default "
                          "route for it (%s)" % (name, _fkind(frame), dst, sender.port_num, nh)))
        return
    if sender.port_num != port:
        rec.add(violation("forwarded_via_best_route", "%s:egress-interface-differs" % site,
                          "%s forwarded a %s frame for %s through port %s; connected networks / longest-prefix route give port %s "
                          "(next hop %s)" % (name, _fkind(frame), dst, sender.port_num, port, nh)))
        return
    own = rec.model.owner.get(nh)
    if own is not None and rec.net is not None:
        mac = rec.net.nodes[own[0]].network_interface[own[1]].mac_address
        if frame.ethernet.dst_mac_addr != mac:
            rec.add(violation("forwarded_via_best_route", "%s:next-hop-mac-differs" % site,
                              "%s forwarded a %s frame for %s through port %s to MAC %s; the next hop %s is %s port %s (MAC %s)" % (
                                  name, _fkind(frame), dst, port, frame.ethernet.dst_mac_addr, nh, own[0], own[1], mac)))


def _enter_tx(rec, frame, sender):
    node = getattr(sender, "_connected_node", None)
    name = _nname(node)
    rec.tx += 1
    ttl = frame.ip.ttl if frame.ip else None
    fi = rec.info(frame)
    if ttl is not None:
        if ttl < 1:
            rec.add(violation("exhausted_ttl_is_dropped", "%s:transmits-ttl<1" % _impl(sender, "send_frame"),
                              "%s port %s put a %s frame with TTL %d on the medium" % (name, sender.port_num, _fkind(frame), ttl)))
        if name in fi["node_rx"]:
            r_node, r_if = fi["node_rx"][name], fi["if_rx"].get(name)
            if isinstance(node, ROUTERISH) and rec.model is not None and not _fkind(frame).startswith("arp"):
                _check_egress(rec, node, name, sender, frame)
            if isinstance(node, ROUTERISH):
                if not ttl < r_node:
                    how = "connected" if frame.ip.dst_ip_address in sender.ip_network else "routed"
                    rec.add(violation("ttl_lowered_at_every_hop", "%s:forwards-without-decrement" % _impl(
                        node, "process_frame" if how == "connected" else "route_frame"),
                                      "%s received a %s frame for %s with TTL %d and forwarded it (%s) with TTL %d" % (
                                          name, _fkind(frame), frame.ip.dst_ip_address, r_node, how, ttl)))
            elif r_if is not None and not ttl < r_if:
                rec.add(violation("ttl_lowered_at_every_hop", "%s:forwards-without-decrement" % type(node).__name__,
                                  "%s took a %s frame with TTL %d from the medium and forwarded it with TTL %d" % (name, _fkind(frame), r_if, ttl)))
    rec.depth += 1
    rec.max_depth = max(rec.max_depth, rec.depth)
    if rec.depth > MAX_NESTING or rec.tx > MAX_TX:
        if rec.cycle is None:
            rec.cycle = (_cycle_signature(), _fkind(frame), "nesting" if rec.depth > MAX_NESTING else "count")
        raise Runaway()


def _w_link_tx(orig):
    def w(self, sender_nic, frame):
        rec = _REC
        if rec is None:
            return orig(self, sender_nic, frame)
        _enter_tx(rec, frame, sender_nic)
        try:
            return orig(self, sender_nic, frame)
        finally:
            rec.depth -= 1

    w._c08_orig = orig
    return w


def _w_air_tx(orig):
    def w(self, frame, sender_network_interface):
        rec = _REC
        if rec is None:
            return orig(self, frame, sender_network_interface)
        _enter_tx(rec, frame, sender_network_interface)
        try:
            return orig(self, frame, sender_network_interface)
        finally:
            rec.depth -= 1

    w._c08_orig = orig
    return w


def _w_if_rx(orig):
    def w(self, frame):
        rec = _REC
        if rec is not None and frame.ip is not None:
            rec.info(frame)["if_rx"][_nname(getattr(self, "_connected_node", None))] = frame.ip.ttl
        return orig(self, frame)

    w._c08_orig = orig
    return w


def _w_node_rx(orig):
    def w(self, frame, from_network_interface):
        rec = _REC
        if rec is not None and frame.ip is not None:
            name, ttl = _nname(self), frame.ip.ttl
            fi = rec.info(frame)
            site = _impl(from_network_interface, "receive_frame")
            if ttl < 1:
                rec.add(violation("exhausted_ttl_is_dropped", "%s:hands-on-ttl<1" % site,
                                  "%s port %s handed a %s frame with TTL %d to the node" % (
                                      name, from_network_interface.port_num, _fkind(frame), ttl)))
            before = fi["if_rx"].get(name)
            if before is not None and not ttl < before:
                rec.add(violation("ttl_lowered_at_every_hop", "%s:no-decrement" % site,
                                  "%s port %s took a %s frame with TTL %d from the medium and handed it on with TTL %d" % (
                                      name, from_network_interface.port_num, _fkind(frame), before, ttl)))
            fi["node_rx"][name] = ttl
        return orig(self, frame, from_network_interface)

    w._c08_orig = orig
    return w


def _w_handed(orig):
    def w(self, payload, port, protocol, session_id, from_network_interface, frame):
        rec = _REC
        if rec is not None and frame is not None and frame.ip is not None:
            rec.handed += 1
            node = from_network_interface._connected_node
            dst = frame.ip.dst_ip_address
            own, bcast = set(), {IPv4Address("255.255.255.255")}
            for nic in node.network_interface.values():
                ip = getattr(nic, "ip_address", None)
                if ip is not None:
                    own.add(ip)
                    bcast.add(nic.ip_network.broadcast_address)
            if dst not in own and dst not in bcast:
                mac = frame.ethernet.dst_mac_addr
                if mac == BCAST_MAC:
                    site = "%s:foreign-address:broadcast-mac" % _impl(node, "receive_frame")
                elif mac == from_network_interface.mac_address:
                    site = "%s:foreign-address:own-mac" % _impl(node, "receive_frame")  # the node does not look at the address
                else:
                    site = "%s:foreign-address:foreign-mac" % _impl(from_network_interface, "receive_frame")  # nor the interface at the MAC
                rec.add(violation(
                    "handed_to_software_only_on_addressee", site,
                    "%s (addresses %s) handed a %s payload addressed to %s (from %s, destination MAC %s) to its software" % (
                        _nname(node), sorted(map(str, own)), _fkind(frame), dst, frame.ip.src_ip_address, frame.ethernet.dst_mac_addr)))
        return orig(self, payload=payload, port=port, protocol=protocol, session_id=session_id,
                    from_network_interface=from_network_interface, frame=frame)

    w._c08_orig = orig
    return w


def install_monitors():
    global _MON_INSTALLED
    if _MON_INSTALLED:
        return

    def wrap(cls, name, maker):
        orig = cls.__dict__[name]
        setattr(cls, name, maker(getattr(orig, "_c08_orig", orig)))

    wrap(Link, "transmit_frame", _w_link_tx)
    wrap(AirSpace, "transmit", _w_air_tx)
    for cls in (NIC, SwitchPort, RouterInterface, WirelessAccessPoint):
        wrap(cls, "receive_frame", _w_if_rx)
    for cls in (HostNode, Switch, Router, Firewall):
        wrap(cls, "receive_frame", _w_node_rx)
    wrap(SoftwareManager, "receive_payload_from_session_manager", _w_handed)
    _MON_INSTALLED = True


# ======================================================================================================================
# Adapter: BFS over one topology
# ======================================================================================================================
class Sut:
    def __init__(self):
        self.net = None
        self.script = None


def _guard(rec, fn):
    """Run real code under the recorder.  Returns (result, how it ended)."""
    global _REC
    _REC = rec
    try:
        return fn(), "returned"
    except Runaway:
        return None, "runaway"
    except RecursionError:
        return None, "recursion"
    except Exception as e:  # noqa - judged below
        if "ecursion" in str(e):
            return None, "recursion"
        return None, "raised:%s" % type(e).__name__
    finally:
        _REC = None


class NetAdapter(engine.Adapter):
    def __init__(self, topo_name: str):
        self.topo = topo_name
        self.spec = topo(topo_name)
        self.model = Reach(self.spec)
        self.name = "c08-" + topo_name
        self.events = list(self.spec["events"])
        install_monitors()

    def params(self):
        return {"topo": self.topo}

    def build(self):
        seams.reset()
        install_monitors()
        s = Sut()
        s.net = build_net(self.spec)
        return s

    def menu(self, s):
        return self.events

    def label(self, ev):
        return ev[0]

    def canon(self, s):
        ids = H.Ids()
        out = []
        for name in self.spec["nodes"]:
            n = s.net.nodes[name]
            icmp = n.software_manager.software.get("icmp")
            out.append((H.node_canon(n, ids), len(icmp.request_replies) if icmp is not None else 0))
        return tuple(out)

    # ------------------------------------------------------------------ the events on the real objects
    def _do(self, s, ev):
        net = s.net
        k = ev[0]
        if k == "tick":
            net.tick()
            return "tick"
        if k == "ping":
            return bool(net.nodes[ev[1]].ping(self.spec["nodes"][ev[2]]["ifs"][1][0], pings=1))
        if k == "pingip":
            return bool(net.nodes[ev[1]].ping(ev[2], pings=1))
        if k == "dns":
            cl = net.nodes[ev[1]].software_manager.software["dns-client"]
            cl.dns_cache.clear()  # every look-up is a real exchange with the server
            return bool(cl.check_domain_exists(DOMAIN))
        if k == "nic":
            nic = net.nodes[ev[1]].network_interface[ev[2]]
            verb = "disable" if nic.enabled else "enable"
            return "%s:%s" % (verb, net.node_req(ev[1], ["network_interface", ev[2], verb]).status)
        if k == "inject":  # what a switch does with a unicast frame whose MAC it has not learnt: every port gets it
            src, own, at = net.nodes["a"].network_interface[1], net.nodes[ev[2]].network_interface[1], net.nodes[ev[1]].network_interface[1]
            fr = Frame(ethernet=EthernetHeader(src_mac_addr=src.mac_address, dst_mac_addr=own.mac_address),
                       ip=IPPacket(src_ip_address=src.ip_address, dst_ip_address=own.ip_address, protocol="icmp"),
                       icmp=ICMPPacket(identifier=77, sequence=1), payload="c08-c08-c08-c08-c08-c08-")
            return bool(at.receive_frame(fr))
        if k == "pwr":
            verb = "shutdown" if net.nodes[ev[1]].operating_state.name == "ON" else "startup"
            return "%s:%s" % (verb, net.node_req(ev[1], [verb]).status)
        raise engine.HarnessError("unknown event %r" % (ev,))

    def _expect(self, s, ev):
        """(expected success or None = not an exchange / no expectation, shape, reason)."""
        k = ev[0]
        if k not in ("ping", "pingip", "dns"):
            return None, "", ""
        f = Flags(self.spec, s.net)
        src = ev[1]
        if k == "dns":
            srv = self.spec["dns_host"]
            if not (f.svc.get((src, "dns-client")) or not f.on[src]):
                return None, "", "dns-client not running"
            if f.on[srv] and not f.svc.get((srv, "dns-server")):
                return None, "", "dns-server not running"
            ok, shape, why = self.model.exchange(f, src, self.spec["dns_ip"], "tcp")  # the DNS client sends over TCP/53
            return ok, "dns:" + shape, why
        dst = self.spec["nodes"][ev[2]]["ifs"][1][0] if k == "ping" else ev[2]
        ok, shape, why = self.model.exchange(f, src, dst, "icmp")
        return ok, "ping:" + shape, why

    def _warm(self, s, ev):
        """Does the source already know a MAC for the first hop?"""
        src = ev[1]
        dst = self.spec["dns_ip"] if ev[0] == "dns" else (self.spec["nodes"][ev[2]]["ifs"][1][0] if ev[0] == "ping" else ev[2])
        port, nh = self.model.next_hop(src, dst)
        if port is None:
            return "cold"
        arp = s.net.nodes[src].software_manager.software.get("arp")
        return "warm" if arp is not None and IPv4Address(nh) in arp.arp else "cold"

    def apply(self, s, ev):
        ev = tuple(ev)
        exp, shape, why = self._expect(s, ev)
        warm = self._warm(s, ev) if exp is not None else ""
        rec = Recorder(self.model, s.net)
        out, how = _guard(rec, lambda: self._do(s, ev))
        viols = list(rec.viols)
        if how in ("runaway", "recursion"):
            cyc = rec.cycle or ("python-recursion-limit", "?", how)
            viols.append(violation(
                "handling_terminates", "unbounded:%s:%s" % (cyc[1], cyc[0]),
                "%s did not end: %d frames in flight inside one another (a frame can cross at most 63 interfaces), %d transmissions; "
                "repeating call cycle %s; the model says: %s" % (list(ev), rec.max_depth, rec.tx, cyc[0], why or "-")))
            return [how, rec.tx], viols
        if how != "returned":
            out = how
        if exp is not None and not viols:
            got = out is True
            if exp and not got:
                viols.append(violation(
                    "permitted_exchange_succeeds", "%s:%s:%s" % (shape, warm, "failed" if how == "returned" else how),
                    "%s: every device on the path is on, enabled, routed and permits it (reference model) but it %s (%d frames sent)" % (
                        list(ev), "failed" if how == "returned" else how, rec.tx)))
            elif got and not exp:
                viols.append(violation(
                    "unreachable_exchange_fails", "%s:%s" % (ev[0], why.split(":")[0]),
                    "%s succeeded although the reference model finds no path: %s (%s)" % (list(ev), why, shape)))
        return [out, rec.tx, rec.handed], viols


def make_adapter(doc):
    if doc.get("adapter", "").startswith("c08-icmpid"):
        return IcmpIdAdapter()
    return NetAdapter(doc["params"]["topo"])


def replay(doc):
    if doc.get("adapter") == "c08-from-config":
        return check_from_config(doc["params"]["variant"])[1]
    if doc.get("adapter") == "c08-routes":
        it = doc["params"]["item"]
        return eval_table((it[0], tuple(tuple(x) for x in it[1]), it[2]))[2]
    ad = make_adapter(doc)
    s = ad.build()
    for ev in doc["history"]:
        ad.apply(s, tuple(ev))
    if doc.get("event") is None:
        return []
    return ad.apply(s, tuple(doc["event"]))[1]


# ======================================================================================================================
# (3) ICMP identifier answers
# ======================================================================================================================
ID_ANSWERS = [0, 1, 65535]


class IcmpIdAdapter(NetAdapter):
    """a - r1 - b (and m); the first event scripts secrets.randbits(16): first answer, every later answer."""

    def __init__(self):
        NetAdapter.__init__(self, "r1")
        self.name = "c08-icmpid"
        self.events = [("ping", "a", "b"), ("ping", "b", "a"), ("pingip", "a", "10.0.1.1"), ("ping2", "a", "b"), ("tick",)]

    def params(self):
        return {"topo": "r1", "icmpid": True}

    def build(self):
        install_monitors()
        return Sut()

    def menu(self, s):
        if s.net is None:
            return [("script", x, y) for x in ID_ANSWERS for y in ID_ANSWERS]
        return self.events

    def canon(self, s):
        if s.net is None:
            return ("unbuilt",)
        left = tuple(tuple(sorted(n.software_manager.software["icmp"].request_replies.items()))
                     for n in s.net.nodes.values() if "icmp" in n.software_manager.software)
        return (tuple(s.script), len(seams._state["icmp_script"] or ()), NetAdapter.canon(self, s), left)

    def apply(self, s, ev):
        ev = tuple(ev)
        if ev[0] == "script":
            if s.net is not None:
                raise engine.HarnessError("script event on a built network")
            seams.reset(icmp_script=[ev[1], ev[2]])
            s.script = [ev[1], ev[2]]
            s.net = build_net(self.spec)
            return ["built"], []
        if s.net is None:
            raise engine.HarnessError("event before the script event")
        if ev[0] != "ping2":
            out, viols = NetAdapter.apply(self, s, ev)
        else:
            exp, shape, why = self._expect(s, ("ping",) + ev[1:])
            rec = Recorder(self.model, s.net)
            r, how = _guard(rec, lambda: bool(s.net.nodes[ev[1]].ping(self.spec["nodes"][ev[2]]["ifs"][1][0], pings=2)))
            out, viols = [r if how == "returned" else how, rec.tx, rec.handed], list(rec.viols)
            if exp and r is not True and not viols:
                viols.append(violation("permitted_exchange_succeeds", "%s:pings=2:%s" % (shape, how), "%s failed (%s)" % (list(ev), how)))
        z = lambda x: "0" if x == 0 else "nonzero"  # noqa: E731
        for v in viols:
            if v["clause"] == "permitted_exchange_succeeds":
                v["signature"] = "icmp-identifier:first-answer=%s:later-answers=%s" % (z(s.script[0]), z(s.script[1]))
                v["detail"] += "; secrets.randbits(16) answers %s first and %s afterwards" % (s.script[0], s.script[1])
        return out, viols


# ======================================================================================================================
# run
# ======================================================================================================================
# (topology, depth, state budget, time budget s).  Cheap / defect-dense topologies first.
QUICK_PLAN = [("lan", 3, 20000, 60), ("r1", 3, 20000, 60), ("r2s", 3, 20000, 60), ("r2d", 3, 20000, 60), ("r3s", 2, 20000, 60),
              ("r3d", 2, 20000, 60), ("fw", 3, 20000, 60), ("sw2r-rrm", 2, 20000, 60), ("sw2r-mrr", 3, 20000, 60), ("wifi", 3, 20000, 60),
              ("hostnh", 3, 20000, 60), ("fw2", 3, 20000, 60), ("fw2sw", 2, 20000, 60), ("noreturn", 3, 20000, 60), ("asym", 3, 20000, 60),
              ("offlink", 2, 20000, 60), ("offlink2", 2, 20000, 60)]
THOROUGH_PLAN = [("lan", 6, 400000, 60), ("r1", 5, 400000, 60), ("r2s", 5, 400000, 60), ("r2d", 5, 400000, 60),
                 ("r3s", 5, 400000, 60), ("r3d", 5, 400000, 60), ("fw", 5, 400000, 60), ("sw2r-rrm", 4, 400000, 60),
                 ("sw2r-mrr", 4, 400000, 60), ("wifi", 6, 400000, 30), ("hostnh", 8, 400000, 10),
                 ("fw2", 5, 400000, 60), ("fw2sw", 4, 400000, 60), ("noreturn", 6, 400000, 30), ("asym", 5, 400000, 60),
                 ("offlink", 5, 400000, 30), ("offlink2", 5, 400000, 30)]
# thorough: a level is only started while the time budget (s) is not used up; the last level costs about 3 times everything
# before it.  Measured: 250k transitions, 160 CPU-minutes in all (about 12 min on 16 free cores); every depth completes when the
# levels before the last fit into the budget, otherwise the cap is reported.


def witness(topo_name):
    """Vacuity witness: every exchange event of the menu on the cold network, then once more (warm).  Not an oracle."""
    ad = NetAdapter(topo_name)
    out = {}
    for ev in ad.events:
        if ev[0] not in ("ping", "pingip", "dns"):
            continue
        s = ad.build()
        res = []
        for _ in range(2):
            o, v = ad.apply(s, ev)
            res.append("violation:" + v[0]["clause"] if v else ("%s (%d frames)" % (o[0], o[1])))
            if v:
                break
        out[" ".join(map(str, ev))] = res
    return out


def _trim(viols):
    """Keep, per (clause, signature), the shortest history of every harness (shortest overall first)."""
    n, seen, out = {}, set(), []
    for v in sorted(viols, key=lambda v: len(v.get("history") or [])):
        k = (v["clause"], v["signature"])
        n[k] = n.get(k, 0) + 1
        if (k, v.get("adapter")) not in seen:
            seen.add((k, v.get("adapter")))
            out.append(v)
    return out, {"%s / %s" % k: c for k, c in sorted(n.items())}


def run(tier, is_known):
    t0 = time.time()
    thorough = tier == "thorough"
    viols, samples = [], []
    # adapters and product function are registered before the first pool is forked (one pool for the whole run)
    plan = THOROUGH_PLAN if thorough else QUICK_PLAN
    only = [t for t in os.environ.get("VERIF_C08_TOPOS", "").split(",") if t]  # development aid: a subset of the topologies
    if only:
        plan = [p for p in plan if p[0] in only]
    scale = float(os.environ.get("VERIF_C08_TB_SCALE", "1") or 1)  # stretch the time budgets on a loaded / smaller machine
    adapters = [(NetAdapter(t), d, sb, tb * scale) for t, d, sb, tb in plan]
    idad = IcmpIdAdapter()
    for ad in [a[0] for a in adapters] + [idad]:
        engine._ADAPTERS[ad.name] = ad
    engine._FUNCS["c08-routes"] = eval_table
    engine._FUNCS["c08-witness"] = witness

    # (1) route tables
    items = route_items(thorough)
    lookups = nontrivial = 0
    for item, (n, nt, v) in engine.pmap("c08-routes", eval_table, items, chunksize=64):
        lookups += n
        nontrivial += nt
        for x in v:
            x.update(adapter="c08-routes", params={"item": item}, history=[], event=None)
        viols += v
    cfg_lookups = 0
    for var in CONFIG_VARIANTS:
        n, v = check_from_config(var)
        cfg_lookups += n
        for x in v:
            x.update(adapter="c08-from-config", params={"variant": var}, history=[], event=None)
        viols += v
    lookups += cfg_lookups
    samples.append({"route_table": {"routes": [list(x) for x in items[len(items) // 2][1]], "default": items[len(items) // 2][2]}})
    t_routes = time.time() - t0

    # (2) + (3) BFS
    per, hist = [], {}
    tot = {"states": 0, "transitions": 0, "outcomes": 0}
    exhaustive = True
    todo = adapters + [(idad, 7 if thorough else 4, 200000, (60 if thorough else 8) * scale)]
    for ad, depth, budget, tb in todo:
        r = engine.bfs(ad, depth, state_budget=budget, time_budget=tb, is_known=is_known, max_violations=10**7)
        viols += r.violations
        tot["states"] += r.states
        tot["transitions"] += r.transitions
        tot["outcomes"] += len(r.outcomes)
        for k, n in r.hist.items():
            hist[k] = hist.get(k, 0) + n
        samples += r.samples[:1]
        done = r.capped is None and (r.max_depth_completed == depth or r.frontier_emptied)
        exhaustive = exhaustive and done
        per.append({"adapter": ad.name, "params": ad.params(), "depth_requested": depth, "depth_completed": r.max_depth_completed,
                    "states": r.states, "transitions": r.transitions, "merged_by_canon": r.merged,
                    "pruned_after_violation": r.pruned, "frontier_emptied": r.frontier_emptied, "cap": r.capped,
                    "level_sizes": r.level_sizes, "determinism_replays": r.determinism_checked,
                    "distinct_outcomes": len(r.outcomes), "event_histogram": dict(r.hist), "menu": [list(e) for e in ad.events]})
    wit, wit_counts = {}, {}
    for t, w in engine.pmap("c08-witness", witness, [p[0] for p in plan]):
        wit[t] = w
        for ev, res in w.items():
            for r in res:
                k = "%s:%s" % (ev.split(" ")[0], str(r).split(" (")[0])
                wit_counts[k] = wit_counts.get(k, 0) + 1
    viols, counts = _trim(viols)
    cov = {
        "states": tot["states"] + len(items), "transitions": tot["transitions"] + lookups,
        "traces_validated_against_impl": tot["transitions"] + lookups,
        "samples": samples, "exhaustive": exhaustive,
        "explanation": "complete product of route tables x destinations on real RouteTable objects against an integer reference; every "
                       "event sequence up to the stated depth on every topology executed on real nodes/links inside a real Simulation "
                       "(states de-duplicated by canonical form, search not continued beneath a violating transition); the reference "
                       "reachability model and the delivery/TTL/termination monitors were evaluated on every transition",
        "route_tables": len(items), "route_lookups_compared": lookups, "route_lookups_with_competing_routes": nontrivial,
        "route_product_seconds": round(t_routes, 1), "from_config_variants": CONFIG_VARIANTS, "from_config_lookups": cfg_lookups, "destinations": DESTS, "default_route_modes": DEFAULT_MODES,
        "bfs_states": tot["states"], "bfs_transitions": tot["transitions"],
        "harnesses": per, "event_histogram": hist, "distinct_outcomes": tot["outcomes"],
        "exchange_outcomes_cold_then_warm": wit, "exchange_outcome_counts": wit_counts,
        "violations_by_clause_signature": counts, "violations_kept": "per (clause, signature): the shortest history of every harness",
        "max_nesting": MAX_NESTING, "max_transmissions_per_event": MAX_TX,
    }
    return {
        "violations": viols, "coverage": cov, "level": "model_checking",
        "assumptions": ASSUMPTIONS,
        "summary": "route-tables=%d lookups=%d bfs-states=%d bfs-transitions=%d harnesses=%d signatures=%d wall=%.0fs%s" % (
            len(items), lookups, tot["states"], tot["transitions"], len(per), len(counts), time.time() - t0,
            "" if exhaustive else " (capped)"),
    }


ASSUMPTIONS = [
    "an exact tie (same prefix length and metric) may be resolved either way; the statement does not define it",
    "a host sends to an address of its own subnet directly and to anything else through its default gateway; a router first "
    "uses a connected network, then the longest-prefix route, then the default route (next hops are on connected networks)",
    "power and interface state are read from the live objects before each exchange (their semantics belong to C12); topology, "
    "addresses, routes and ACLs come from the harness' own declarative spec",
    "routers carry a permit-all rule (harness_sim.router); the firewall's six lists are configured by the harness: internal-inbound "
    "permits ICMP from anywhere and TCP from host a only, the other lists permit everything",
    "ping = Node.ping(pings=1); service exchange = DNSClient.check_domain_exists with the client's cache emptied first (Python API; "
    "no request exists for either); toggles and power go through Simulation.apply_request; shut-down/start-up durations are 0",
    "a payload counts as unicast when its destination address is neither 255.255.255.255 nor the directed broadcast of an interface "
    "of the receiving node (ARP requests carry the asked-for address and are judged like any other packet)",
    "per-hop oracle: a router's egress interface and the destination MAC of a forwarded frame are those of the next hop given by "
    "connected networks, then the reference LPM (the next hop of a connected network is the destination itself); ARP frames are "
    "not judged by it",
    "termination: an event that has more than %d frames in flight inside one another or more than %d transmissions is cut by the "
    "monitor and reported (a frame can cross at most 63 interfaces); the recursion limit of the checking process is raised to 6000 "
    "so that the cut is deterministic" % (MAX_NESTING, MAX_TX),
    "canonical state: per node power, interfaces, software states, ARP cache, MAC table, pending ICMP reply counters; link load, "
    "traffic counters and session tables are left out (100 Mbit links are never near capacity within the bound)",
    "all adapters are registered in engine._ADAPTERS before the first pool is forked (one pool for the run)",
]
