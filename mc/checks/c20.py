"""C20 — the simulation built from a scenario file is what the file says.

Complete enumeration of: every shipped scenario (every episode of the three schedule directories) and every member of
the generated family GEN (plus variants with extra interfaces, static routes, users, files, listen ports).
Oracle 1: an inventory derived independently from the scenario dictionary (documented schema) is compared field by field
          with an inventory read from the built object graph (never from describe_state).
Oracle 2: the scenario is re-serialised (YAML round trip) and its mapping keys are permuted (all reversed, all sorted,
          each mapping reversed on its own when a difference has to be localised); the seeded 8-step trajectory digest of
          a real PrimaiteGymEnv must equal the original's.
"""
from __future__ import annotations

import copy
import json
import os
import time
from ipaddress import IPv4Address

from .. import common, engine, harness_env as HE
from ..engine import violation

common.import_sim()

PROP = "C20"


# ------------------------------------------------------------------------------------------------------------
# scenarios
# ------------------------------------------------------------------------------------------------------------
def extra_variants():
    out = []
    base = dict(HE.GEN[0])
    out.append(dict(base, name="x-extra-nics", extra="nics"))
    out.append(dict(base, name="x-routes", extra="routes"))
    out.append(dict(base, name="x-green-order", extra="green"))
    out.append(dict(base, name="x-acl-last-slots", extra="acl"))
    out.append(dict(base, name="x-shared-options", extra="shared-options"))
    fw = dict([g for g in HE.GEN if g.get("topo") == "firewall"][0])
    # a default route and nothing else (no ``routes`` key) on a firewall and on a router; routes and no default route
    out.append(dict(fw, name="x-fw-default-route-only", extra="fw-default-route"))
    out.append(dict(base, name="x-default-route-only", extra="default-route"))
    out.append(dict(fw, name="x-fw-routes-only", extra="fw-routes"))
    # generated node sets (office LANs): one edge switch; two edge switches behind a core switch; non-default bandwidths
    out.append(dict(base, name="x-node-sets", extra="node-sets"))
    # software declared in another order than GEN writes it, every item with options of its own
    out.append(dict(base, name="x-software-order", extra="software-order"))
    # the top-level ``defaults`` section read by PrimaiteGame.from_config: zero and non-zero values
    out.append(dict(base, name="x-defaults-zero", extra="defaults", defaults_value=0))
    out.append(dict(base, name="x-defaults-four", extra="defaults", defaults_value=4))
    return out


def build_cfg(v):
    cfg = HE.gen_scenario(v)
    nodes = cfg["simulation"]["network"]["nodes"]
    if v.get("extra") == "nics":
        for n in nodes:
            if n["hostname"] == "backup_server":
                n["network_interfaces"] = {2: {"ip_address": "192.168.10.50", "subnet_mask": "255.255.255.0"},
                                           3: {"ip_address": "192.168.20.50", "subnet_mask": "255.255.255.0"}}
        cfg["simulation"]["network"]["links"].append({"endpoint_a_hostname": "switch_2", "endpoint_a_port": 3,
                                                      "endpoint_b_hostname": "backup_server", "endpoint_b_port": 2, "bandwidth": 50})
    if v.get("extra") == "routes":
        for n in nodes:
            if n["hostname"] == "router_1":
                n["routes"] = [{"address": "10.1.0.0", "subnet_mask": "255.255.0.0", "next_hop_ip_address": "192.168.1.12", "metric": 2},
                               {"address": "10.1.1.0", "subnet_mask": "255.255.255.0", "next_hop_ip_address": "192.168.1.14"},
                               # a primary and a backup route to the same network (two entries, not one)
                               {"address": "10.2.0.0", "subnet_mask": "255.255.0.0", "next_hop_ip_address": "192.168.1.12", "metric": 1},
                               {"address": "10.2.0.0", "subnet_mask": "255.255.0.0", "next_hop_ip_address": "192.168.1.16", "metric": 10}]
                n["default_route"] = {"next_hop_ip_address": "192.168.10.22"}
            if n["hostname"] == "web_server":
                n["services"].append({"type": "ntp-server"})
                n["applications"][0]["options"]["listen_on_ports"] = [631, "SMB"]
                n["operating_state"] = "OFF"
            if n["hostname"] == "client_2":
                n["services"] = [{"type": "ntp-client", "options": {"ntp_server_ip": HE.IPS["web_server"]}},
                                 {"type": "dns-client", "options": {"dns_server": HE.IPS["backup_server"]}}]
                n["users"] = [{"username": "u1", "password": "p1", "is_admin": True}]
    if v.get("extra") == "acl":
        for n in nodes:
            if n["hostname"] == "router_1":
                n["acl"][22] = {"action": "PERMIT", "src_port": "DNS", "dst_port": "DNS"}
                n["acl"][23] = {"action": "DENY", "protocol": "TCP", "src_ip": HE.IPS["client_2"], "dst_ip": HE.IPS["database_server"]}
                n["acl"][0] = {"action": "PERMIT", "src_port": "ARP", "dst_port": "ARP"}
                n["acl"][1] = {"action": "PERMIT", "protocol": "ICMP"}
    if v.get("extra") == "shared-options":
        # what a YAML anchor/alias produces: several services refer to ONE options mapping object
        shared = {"fixing_duration": 4}
        for n in nodes:
            for svc in n.get("services", []) or []:
                if svc["type"] in ("web-server", "ftp-server", "ftp-client", "dns-client"):
                    svc["options"] = shared
            for app in n.get("applications", []) or []:
                if app["type"] == "web-browser":
                    app.setdefault("options", {})["fixing_duration"] = 5
    if v.get("extra") in ("fw-default-route", "default-route", "fw-routes"):
        for n in nodes:
            if n["type"] in ("firewall", "router"):
                if v["extra"] == "fw-routes":
                    n["routes"] = [{"address": "10.3.0.0", "subnet_mask": "255.255.0.0", "next_hop_ip_address": "192.168.1.12", "metric": 3}]
                else:
                    n["default_route"] = {"next_hop_ip_address": "192.168.10.22"}
    if v.get("extra") == "node-sets":
        cfg["simulation"]["network"]["node_sets"] = [
            {"type": "office-lan", "lan_name": "small", "subnet_base": 31, "pcs_ip_block_start": 10, "num_pcs": 3, "bandwidth": 20},
            {"type": "office-lan", "lan_name": "large", "subnet_base": 32, "pcs_ip_block_start": 20, "num_pcs": 47, "bandwidth": 40},
            {"type": "office-lan", "lan_name": "dflt", "subnet_base": 33, "pcs_ip_block_start": 5, "num_pcs": 24},
        ]
    if v.get("extra") == "software-order":
        for n in nodes:
            for kind in ("services", "applications"):
                if n.get(kind):
                    n[kind] = list(reversed(n[kind]))
                    for k, sw in enumerate(n[kind]):
                        sw.setdefault("options", {})["fixing_duration"] = 3 + k
    if v.get("extra") == "defaults":
        d = v["defaults_value"]
        cfg["defaults"] = {"node_scan_duration": d, "folder_scan_duration": d, "folder_restore_duration": d,
                           "service_fix_duration": d, "service_restart_duration": d, "service_install_duration": d}
    if v.get("extra") == "green":
        g = [a for a in cfg["agents"] if a["ref"] == "green_1"][0]
        g["agent_settings"]["action_probabilities"] = {2: 0.2, 0: 0.3, 1: 0.5}
    return cfg


def all_scenarios():
    """(name, loader) where loader() -> scenario dict."""
    S = []
    for v in HE.GEN + extra_variants():
        S.append((v["name"], (lambda v=v: build_cfg(v))))
    for name in ("data_manipulation", "uc7", "uc7_tap003"):
        S.append((name, (lambda name=name: HE.load_yaml(HE.SHIPPED[name]))))
    import os

    for f in ("data_manipulation_marl.yaml", "basic_lan_network_example.yaml", "client_server_p2p_network_example.yaml",
              "multi_lan_internet_network_example.yaml"):
        S.append((f, (lambda f=f: HE.load_yaml(os.path.join(HE.PKG, f)))))
    for name in ("sched_uc7_variants", "sched_placeholders", "sched_mini"):
        from primaite.session.episode_schedule import build_scheduler

        sch = build_scheduler(HE.SHIPPED[name])
        for ep in range(len(sch.schedule)):
            S.append(("%s#ep%d" % (name, ep), (lambda name=name, ep=ep: build_scheduler(HE.SHIPPED[name])(ep))))
    return S


# ------------------------------------------------------------------------------------------------------------
# Oracle 1: inventories
# ------------------------------------------------------------------------------------------------------------
def _norm(v):
    from primaite.utils.validation.port import PORT_LOOKUP
    from primaite.utils.validation.ip_protocol import PROTOCOL_LOOKUP
    import enum

    if isinstance(v, enum.Enum):
        return _norm(v.name)
    if isinstance(v, IPv4Address):
        return str(v)
    if isinstance(v, bool) or v is None:
        return v
    if isinstance(v, (int, float)):
        return float(v)
    if isinstance(v, str):
        if v in PORT_LOOKUP:
            return float(PORT_LOOKUP[v])
        if v in PROTOCOL_LOOKUP:
            return PROTOCOL_LOOKUP[v]
        try:
            return float(v) if v.replace(".", "", 1).isdigit() and v.count(".") <= 1 else v
        except Exception:  # noqa
            return v
    if isinstance(v, dict):
        return {str(_norm(k)): _norm(x) for k, x in sorted(v.items(), key=lambda kv: str(kv[0]))}
    if isinstance(v, (list, tuple, set, frozenset)):
        return sorted((_norm(x) for x in v), key=repr) if isinstance(v, (set, frozenset)) else [_norm(x) for x in v]
    if hasattr(v, "model_dump"):
        return _norm(v.model_dump())
    return str(v)


def _subset_diff(want, got, path=""):
    """Every value the file states must be found in the built object (defaults the file does not mention are ignored)."""
    if isinstance(want, dict):
        for k, v in want.items():
            if isinstance(got, dict):
                g = got.get(k, got.get(str(k), "<missing>"))
                if g == "<missing>":
                    for gk in got:
                        if _norm(gk) == _norm(k) or str(getattr(gk, "name", gk)) == str(k):
                            g = got[gk]
            else:
                g = getattr(got, str(k), "<missing>")
            d = _subset_diff(v, g, path + "/" + str(k))
            if d:
                return d
        return None
    if isinstance(want, list) and isinstance(got, (list, tuple)) and len(want) == len(got):
        for i, (w, g) in enumerate(zip(want, got)):
            d = _subset_diff(w, g, path + "/%d" % i)
            if d:
                return d
        return None
    return None if _norm(want) == _norm(got) else (path, want, got)


def _rule_from_cfg(r):
    from primaite.utils.validation.port import PORT_LOOKUP
    from primaite.utils.validation.ip_protocol import PROTOCOL_LOOKUP

    return (r["action"], PROTOCOL_LOOKUP[r["protocol"]] if r.get("protocol") else None, r.get("src_ip"), r.get("src_wildcard_mask"),
            r.get("dst_ip"), r.get("dst_wildcard_mask"), PORT_LOOKUP[r["src_port"]] if r.get("src_port") else None,
            PORT_LOOKUP[r["dst_port"]] if r.get("dst_port") else None)


def _rule_from_obj(r):
    s = lambda x: None if x is None else str(x)  # noqa
    return (r.action.name, r.protocol, s(r.src_ip_address), s(r.src_wildcard_mask), s(r.dst_ip_address), s(r.dst_wildcard_mask),
            r.src_port, r.dst_port)


SYSTEM_DEFAULT_RULES = {22: ("PERMIT", None, None, None, None, None, 219, 219), 23: ("PERMIT", "icmp", None, None, None, None, None, None)}
FW_LISTS = ("internal_inbound_acl", "internal_outbound_acl", "dmz_inbound_acl", "dmz_outbound_acl", "external_inbound_acl",
            "external_outbound_acl")


def check_inventory(name, cfg, after_setup=False, built_from=None):
    """Build the game from ``cfg`` and compare. Returns (fields compared, violations)."""
    from primaite.game.game import PrimaiteGame
    from primaite.simulator.network.hardware.nodes.network.router import Router
    from primaite.simulator.network.hardware.nodes.network.firewall import Firewall
    from .. import seams

    seams.reset()
    V = {}
    n_fields = [0]

    def eq(clause, sig, what, want, got):
        n_fields[0] += 1
        if _norm(want) != _norm(got):
            V.setdefault((clause, sig), violation(clause, sig, "scenario %s: %s: file says %r, built simulation has %r" % (name, what, want, got)))

    game = PrimaiteGame.from_config(built_from if built_from is not None else copy.deepcopy(cfg))
    if after_setup:
        # what env.reset() does after loading: the episode starts from what the file declares
        game.setup_for_episode(episode=1)
    net = game.simulation.network
    ncfg = cfg.get("simulation", {}).get("network", {})
    node_cfgs = list(ncfg.get("nodes", []))
    built = {n.config.hostname: n for n in net.nodes.values()}
    if not ncfg.get("node_sets"):
        eq("nodes_exactly_as_declared", "node-set", "set of hostnames", sorted(n["hostname"] for n in node_cfgs), sorted(built))
    for nc in node_cfgs:
        hn = nc["hostname"]
        node = built.get(hn)
        if node is None:
            eq("nodes_exactly_as_declared", "node-missing", "node %s" % hn, "present", "absent")
            continue
        eq("node_type", "node-type", "%s type" % hn, nc["type"], getattr(type(node), "_discriminator", type(node).__name__))
        if not after_setup:  # episode set-up powers every node on (the declared state is the state when loaded)
            eq("node_initial_state", "operating_state", "%s initial operating state" % hn, (nc.get("operating_state") or "ON").upper(),
               node.operating_state.name)
        eq("node_durations", "start_up_duration", "%s start_up_duration" % hn, int(nc.get("start_up_duration", 3)), node.config.start_up_duration)
        eq("node_durations", "shut_down_duration", "%s shut_down_duration" % hn, int(nc.get("shut_down_duration", 3)), node.config.shut_down_duration)
        if "ip_address" in nc:
            nic1 = node.network_interface.get(1)
            eq("interfaces_and_addresses", "nic1", "%s interface 1 address" % hn, (nc["ip_address"], nc.get("subnet_mask", "255.255.255.0")),
               (str(nic1.ip_address), str(nic1.subnet_mask)) if nic1 is not None else None)
            extra = nc.get("network_interfaces") or {}
            for k, e in extra.items():
                got = node.network_interface.get(k)
                eq("interfaces_and_addresses", "extra-nic-by-number", "%s interface %s address" % (hn, k),
                   (e["ip_address"], e["subnet_mask"]), (str(got.ip_address), str(got.subnet_mask)) if got is not None else None)
            eq("interfaces_and_addresses", "nic-count", "%s number of interfaces" % hn, 1 + len(extra), len(node.network_interface))
            eq("gateway_and_dns", "default_gateway", "%s default gateway" % hn, nc.get("default_gateway"),
               None if node.config.default_gateway is None else str(node.config.default_gateway))
            eq("gateway_and_dns", "dns_server", "%s dns server" % hn, nc.get("dns_server"),
               None if node.config.dns_server is None else str(node.config.dns_server))
        if isinstance(node, Firewall):
            names = {"external_port": 1, "internal_port": 2, "dmz_port": 3}
            for pn, pc in (nc.get("ports") or {}).items():
                p = node.network_interface[names[pn]]
                eq("interfaces_and_addresses", "firewall-port", "%s %s" % (hn, pn), (pc["ip_address"], pc.get("subnet_mask", "255.255.255.0")),
                   (str(p.ip_address), str(p.subnet_mask)))
            for lst in FW_LISTS:
                want = {}
                for pos, r in ((nc.get("acl") or {}).get(lst) or {}).items():
                    want[int(pos)] = _rule_from_cfg(r)
                acl = getattr(node, lst)
                for pos in range(len(acl.acl)):
                    got = acl.acl[pos]
                    eq("acl_rules_at_stated_positions", "firewall:%s" % ("rule" if pos in want else "empty-slot"),
                       "%s %s slot %d" % (hn, lst, pos), want.get(pos), None if got is None else _rule_from_obj(got))
        elif isinstance(node, Router):
            for pn, pc in (nc.get("ports") or {}).items():
                p = node.network_interface[int(pn)]
                eq("interfaces_and_addresses", "router-port", "%s port %s" % (hn, pn), (pc["ip_address"], pc.get("subnet_mask", "255.255.255.0")),
                   (str(p.ip_address), str(p.subnet_mask)))
            want = dict(SYSTEM_DEFAULT_RULES)
            for pos, r in (nc.get("acl") or {}).items():
                want[int(pos)] = _rule_from_cfg(r)
            for pos in range(len(node.acl.acl)):
                got = node.acl.acl[pos]
                eq("acl_rules_at_stated_positions", "router:%s" % ("rule" if pos in want else "empty-slot"), "%s acl slot %d" % (hn, pos),
                   want.get(pos), None if got is None else _rule_from_obj(got))
        if isinstance(node, Router):
            want_routes = sorted((r["address"], r.get("subnet_mask", "255.255.255.0"), r["next_hop_ip_address"], float(r.get("metric", 0)))
                                 for r in (nc.get("routes") or []))
            got_routes = sorted((str(r.address), str(r.subnet_mask), str(r.next_hop_ip_address), float(r.metric)) for r in node.route_table.routes)
            eq("routes", "static-routes", "%s static routes" % hn, want_routes, got_routes)
            dr = (nc.get("default_route") or {}).get("next_hop_ip_address")
            eq("routes", "default-route", "%s default route" % hn, dr,
               None if node.route_table.default_route is None else str(node.route_table.default_route.next_hop_ip_address))
        # simulation defaults (top-level ``defaults`` mapping, the keys PrimaiteGame.from_config reads)
        dflt = cfg.get("defaults") or {}
        if "node_scan_duration" in dflt:
            eq("defaults", "node_scan_duration", "%s node_scan_duration" % hn, dflt["node_scan_duration"], node.config.node_scan_duration)
        for key, attr in (("folder_scan_duration", "scan_duration"), ("folder_restore_duration", "restore_duration")):
            if key in dflt:
                fo = node.file_system.create_folder("c20-probe-" + key)  # a folder created now gets the configured default
                eq("defaults", key, "%s %s of a new folder" % (hn, key), dflt[key], getattr(fo, attr))
                node.file_system.delete_folder("c20-probe-" + key)
        for sc in nc.get("services", []) or []:
            sw = node.software_manager.software.get(sc["type"])
            if sw is None:
                continue
            if "service_fix_duration" in dflt and "fixing_duration" not in (sc.get("options") or {}):
                eq("defaults", "service_fix_duration", "%s %s fixing_duration" % (hn, sc["type"]), dflt["service_fix_duration"], sw.config.fixing_duration)
            if "service_restart_duration" in dflt:
                eq("defaults", "service_restart_duration", "%s %s restart_duration" % (hn, sc["type"]), dflt["service_restart_duration"], sw.restart_duration)
        # software
        for kind, reg in (("services", node.services), ("applications", node.applications)):
            for sc in nc.get(kind, []) or []:
                t = sc["type"]
                inst = [x for x in reg.values() if x.name == t]
                eq("software_exactly_one_instance", "%s-instances" % kind, "%s number of '%s' %s" % (hn, t, kind), 1, len(inst))
                sw = node.software_manager.software.get(t)
                if sw is None:
                    continue
                if inst and not any(x is sw for x in inst):
                    eq("software_exactly_one_instance", "%s-registered-instance" % kind, "%s '%s' managed instance is the listed one" % (hn, t), True, False)
                for ok, ov in (sc.get("options") or {}).items():
                    if ok == "type":
                        continue
                    if ok == "listen_on_ports":
                        eq("software_options", "listen_on_ports", "%s %s listen_on_ports" % (hn, t), set(_norm(p) for p in ov),
                           set(_norm(p) for p in sw.listen_on_ports))
                    elif hasattr(sw.config, ok):
                        eq("software_options", "%s.%s" % (t, ok), "%s %s option %s" % (hn, t, ok), ov, getattr(sw.config, ok))
                    else:
                        eq("software_options", "%s.%s:not-in-config" % (t, ok), "%s %s option %s is known to the software" % (hn, t, ok), True, False)
                if kind == "services":
                    eq("software_initial_state", "service-running", "%s service %s state" % (hn, t),
                       "RUNNING" if node.operating_state.name == "ON" else sw.operating_state.name, sw.operating_state.name)
        # users
        um = node.software_manager.software.get("user-manager")
        if um is not None:
            want_users = {u["username"]: (u["password"], bool(u.get("is_admin", False))) for u in nc.get("users", []) or []}
            for un, (pw, adm) in want_users.items():
                u = um.users.get(un)
                eq("users", "declared-user", "%s user %s" % (hn, un), (pw, adm), None if u is None else (u.password, u.is_admin))
            eq("users", "user-set", "%s user names" % hn, sorted(set(want_users) | {"admin"}), sorted(um.users))
        # folders / files
        for fc in nc.get("folders", []) or []:
            fo = node.file_system.get_folder(fc["folder_name"])
            eq("folders_and_files", "folder", "%s folder %s" % (hn, fc["folder_name"]), True, fo is not None)
            for fi in fc.get("files", []) or []:
                f = fo.get_file(fi["file_name"]) if fo else None
                eq("folders_and_files", "file", "%s file %s/%s" % (hn, fc["folder_name"], fi["file_name"]), True, f is not None)
                if f is not None and "type" in fi:
                    eq("folders_and_files", "file-type", "%s file %s type" % (hn, fi["file_name"]), fi["type"].upper(), f.file_type.name)
                if f is not None and fi.get("size"):
                    eq("folders_and_files", "file-size", "%s file %s size" % (hn, fi["file_name"]), fi["size"], f.size)
    # generated node sets: the documented meaning of the office-lan options (ConfigSchema docstrings)
    set_nodes = set()
    for ns in ncfg.get("node_sets", []) or []:
        if ns.get("type") != "office-lan":
            continue
        lan = ns["lan_name"]
        bw = float(ns.get("bandwidth", 100))
        members = {hn for hn in built if hn.endswith("_" + lan)}
        set_nodes |= members
        pcs = sorted(hn for hn in members if hn.startswith("pc_"))
        eq("node_set_members", "office-lan:pcs", "node set %s: generated hosts" % lan,
           sorted("pc_%d_%s" % (i, lan) for i in range(1, ns["num_pcs"] + 1)), pcs)
        for i in range(1, ns["num_pcs"] + 1):
            pc = built.get("pc_%d_%s" % (i, lan))
            if pc is not None:
                eq("node_set_members", "office-lan:pc-address", "node set %s: address of pc %d" % (lan, i),
                   "192.168.%d.%d" % (ns["subnet_base"], ns["pcs_ip_block_start"] + i - 1), str(pc.network_interface[1].ip_address))
                eq("node_set_members", "office-lan:pc-connected", "node set %s: pc %d is connected" % (lan, i), True,
                   pc.network_interface[1]._connected_link is not None)
        eq("node_set_members", "office-lan:router", "node set %s: router present" % lan, bool(ns.get("include_router", True)),
           ("router_" + lan) in built)
        for l in net.links.values():
            ends = (l.endpoint_a.parent.config.hostname, l.endpoint_b.parent.config.hostname)
            if ends[0] in members or ends[1] in members:
                eq("links_with_bandwidth", "office-lan:link-bandwidth", "node set %s: bandwidth of link %s<->%s" % ((lan,) + ends), bw, float(l.bandwidth))
    if ncfg.get("node_sets"):
        eq("nodes_exactly_as_declared", "node-set+generated", "hostnames outside the generated node sets",
           sorted(n["hostname"] for n in node_cfgs), sorted(set(built) - set_nodes))
    # links
    want_links = sorted((tuple(sorted([(l["endpoint_a_hostname"], int(l["endpoint_a_port"])), (l["endpoint_b_hostname"], int(l["endpoint_b_port"]))])),
                         float(l.get("bandwidth", 100))) for l in ncfg.get("links", []))
    got_links = []
    for l in net.links.values():
        ends = sorted([(l.endpoint_a.parent.config.hostname, l.endpoint_a.port_num), (l.endpoint_b.parent.config.hostname, l.endpoint_b.port_num)])
        got_links.append((tuple(ends), float(l.bandwidth)))
    if not ncfg.get("node_sets"):
        eq("links_with_bandwidth", "link-set", "links (endpoints, bandwidth)", want_links, sorted(got_links))
    else:
        for wl in want_links:
            eq("links_with_bandwidth", "link", "link %r" % (wl,), True, wl in got_links)
    # airspace
    for freq, mbps in (ncfg.get("airspace", {}) or {}).get("frequency_max_capacity_mbps", {}).items():
        eq("airspace_capacity", "frequency", "airspace %s capacity" % freq, float(mbps), net.airspace.get_frequency_max_capacity_mbps(freq))
    # agents
    acfg = cfg.get("agents", [])
    eq("agents_exactly_as_declared", "agent-set", "agent refs", [a["ref"] for a in acfg], list(game.agents))
    for a in acfg:
        ag = game.agents.get(a["ref"])
        if ag is None:
            continue
        eq("agent_definition", "type", "agent %s type" % a["ref"], a["type"], ag.config.type)
        eq("agent_definition", "team", "agent %s team" % a["ref"], a.get("team"), ag.config.team)
        am = (a.get("action_space") or {}).get("action_map") or {}
        eq("agent_definition", "action-map-keys", "agent %s action map indices" % a["ref"], sorted(am), sorted(ag.action_manager.action_map))
        for i, e in am.items():
            got = ag.action_manager.action_map.get(i)
            eq("agent_definition", "action-map-entry", "agent %s action %s" % (a["ref"], i), (e["action"], e.get("options", {})),
               None if got is None else (got[0], got[1]))
        comps = (a.get("reward_function") or {}).get("reward_components") or []
        got_comps = ag.reward_function.reward_components
        eq("agent_definition", "reward-component-count", "agent %s number of reward components" % a["ref"], len(comps), len(got_comps))
        for c, (gc, gw) in zip(comps, got_comps):
            from primaite.game.agent.rewards import AbstractReward

            eq("agent_definition", "reward-component", "agent %s reward component" % a["ref"],
               (AbstractReward._registry[c["type"]].__name__, float(c.get("weight", 1.0))), (type(gc).__name__, float(gw)))
            for ok, ov in (c.get("options") or {}).items():
                eq("agent_definition", "reward-option:%s" % ok, "agent %s reward %s option %s" % (a["ref"], c["type"], ok), ov, getattr(gc.config, ok, "<missing>"))
        for ok, ov in (a.get("agent_settings") or {}).items():
            bad = _subset_diff(ov, getattr(ag.config.agent_settings, ok, "<missing>"))
            n_fields[0] += 1
            if bad:
                V.setdefault(("agent_definition", "agent-setting:%s" % ok), violation(
                    "agent_definition", "agent-setting:%s" % ok, "scenario %s: agent %s setting %s%s: file says %r, built agent has %r" % (
                        name, a["ref"], ok, bad[0], bad[1], bad[2])))
        if a["type"] == "probabilistic-agent" and (a.get("agent_settings") or {}).get("action_probabilities"):
            ap = a["agent_settings"]["action_probabilities"]
            eq("agent_definition", "probability-vector-aligned-with-action-map", "agent %s probability of each action index" % a["ref"],
               [float(ap[i]) for i in range(len(ap))], [float(x) for x in ag.probabilities])
    game_opts = cfg.get("game", {})
    eq("game_options", "max_episode_length", "max_episode_length", game_opts.get("max_episode_length", 256), game.options.max_episode_length)
    return n_fields[0], list(V.values())


# ------------------------------------------------------------------------------------------------------------
# Oracle 2: key order / format invariance
# ------------------------------------------------------------------------------------------------------------
def _permute(x, mode, only=None, path=()):
    if isinstance(x, dict):
        items = [(k, _permute(v, mode, only, path + (str(k),))) for k, v in x.items()]
        if only is None or only == path:
            if mode == "reversed":
                items = items[::-1]
            elif mode == "sorted":
                items = sorted(items, key=lambda kv: str(kv[0]))
        return dict(items)
    if isinstance(x, list):
        return [_permute(v, mode, only, path + (str(i),)) for i, v in enumerate(x)]
    return copy.deepcopy(x)


def _mappings(x, path=()):
    if isinstance(x, dict):
        if len(x) > 1:
            yield path
        for k, v in x.items():
            yield from _mappings(v, path + (str(k),))
    elif isinstance(x, list):
        for i, v in enumerate(x):
            yield from _mappings(v, path + (str(i),))


def trajectory_digest(cfg, steps=8):
    from .. import envexplore as EE, seams

    Env = HE.import_env()
    seams.reset()
    env = Env(copy.deepcopy(cfg))
    out = []
    env.reset(seed=11)
    # the nested observation is compared (a dict: insensitive to key order); the position of an entry inside the *flattened*
    # vector follows the order in which e.g. monitored_traffic protocols are written and is not part of this comparison
    nested = lambda: env.agent.observation_manager.current_observation  # noqa
    out.append(HE.sha(repr(HE.to_plain(nested()))))
    n = len(env.agent.action_manager.action_map)
    for t in range(steps):
        a = (t * 7 + 3) % n if t % 2 else 0
        try:
            obs, rew, term, trunc, info = env.step(a)
        except Exception as e:  # noqa
            out.append("raised:" + type(e).__name__)
            break
        acts = {k: (v.action, EE.normalise_ids(repr(HE.to_plain(v.parameters))), v.response.status) for k, v in info["agent_actions"].items()}
        out.append(HE.sha(repr((HE.to_plain(nested()), round(float(rew), 9), sorted(acts.items())))))
    return out


def check_order(item):
    """item = (scenario name). Returns (variants compared, violations)."""
    name = item
    cfg = dict(all_scenarios())[name]()
    try:
        base = trajectory_digest(cfg)
    except StopIteration:
        return 0, []  # no proxy agent: no Gym environment for this file
    V = []
    n = 0
    import yaml

    variants = [("yaml-roundtrip-flow", yaml.safe_load(yaml.safe_dump(cfg, default_flow_style=True, sort_keys=False))),
                ("reversed", _permute(cfg, "reversed")), ("sorted", _permute(cfg, "sorted"))]
    for vname, c2 in variants:
        n += 1
        d = trajectory_digest(c2)
        if d != base:
            # localise: reverse one mapping at a time
            culprit = None
            if vname != "yaml-roundtrip-flow":
                for mp in _mappings(cfg):
                    n += 1
                    if trajectory_digest(_permute(cfg, "reversed", only=mp)) != base:
                        culprit = mp
                        break
            step = next((i for i, (a, b) in enumerate(zip(base, d)) if a != b), min(len(base), len(d)))
            sig = "key-order:" + ("/".join(_generalise(culprit)) if culprit else vname)
            V.append(violation("key_order_and_format_invariance", sig,
                               "scenario %s: variant '%s' diverges from the original at step %d; first mapping whose reversal alone changes the "
                               "trajectory: %s" % (name, vname, step, "/".join(culprit) if culprit else "not localised")))
            break
    return n, V


def _generalise(path):
    return tuple("N" if p.isdigit() else p for p in path)


# ------------------------------------------------------------------------------------------------------------
def _wrap_task(name):
    """One scheduler object asked for every episode of its schedule more than twice over: what it hands out after looping
    back must still build exactly what the files declare (declaration taken from a FRESH scheduler)."""
    import shutil
    from primaite.session.episode_schedule import build_scheduler

    tmp = None
    if name == "generated-with-router":
        tmp = HE.make_schedule_dir("/var/tmp/primaite-verif-sched20-%d" % os.getpid(), episodes=2)
        path = tmp
    else:
        path = HE.SHIPPED[name]
    try:
        sch = build_scheduler(path)
        n = len(sch.schedule)
        nf, viols = 0, []
        for ep in range(2 * n + 1):
            handed = sch(ep)
            declared = build_scheduler(path)(ep % n)
            a, v = check_inventory("%s#ep%d (scheduler used %d times)" % (name, ep, ep + 1), declared, built_from=handed)
            nf += a
            for x in v:
                x["signature"] = "scheduler-reuse:" + x["signature"]
            viols += v
            if viols:
                break
    finally:
        if tmp:
            shutil.rmtree(tmp, ignore_errors=True)
    return nf, viols


def _inv_task(name):
    if name.startswith("wrap:"):
        return _wrap_task(name[5:])
    cfg = dict(all_scenarios())[name]()
    n1, v1 = check_inventory(name, cfg)
    n3, v3 = check_inventory(name + " [after episode set-up]", cfg, after_setup=True)
    for x in v3:
        x["signature"] = "after-setup:" + x["signature"]
    n1, v1 = n1 + n3, v1 + v3
    # the same inventory must be built from the same file with every mapping written in reverse key order
    n2, v2 = check_inventory(name + " [all mappings in reverse key order]", _permute(cfg, "reversed"))
    for x in v2:
        x["signature"] = "reversed-keys:" + x["signature"]
    return n1 + n2, v1 + v2


def replay(doc):
    name = doc["params"]["scenario"]
    if doc["params"]["oracle"] == "inventory":
        return _inv_task(name)[1]
    return check_order(name)[1]


def run(tier, is_known):
    t0 = time.time()
    HE.import_env()
    S = all_scenarios()
    names = [n for n, _ in S]
    viols = []
    fields = 0
    per = {}
    wraps = ["wrap:generated-with-router", "wrap:sched_mini", "wrap:sched_placeholders"] + (["wrap:sched_uc7_variants"] if tier == "thorough" else [])
    for name, (nf, v) in engine.pmap("c20-inventory", _inv_task, names + wraps, chunksize=1):
        fields += nf
        per[name] = {"fields_compared": nf}
        for x in v:
            x.update(adapter="c20", params={"scenario": name, "oracle": "inventory"}, history=[], event=None)
        viols += v
    order_names = names if tier == "thorough" else [n for n in names if not n.startswith(("uc7", "sched_uc7", "multi_lan", "data_manipulation_marl"))]
    variants = 0
    for name, (nv, v) in engine.pmap("c20-order", check_order, order_names, chunksize=1):
        variants += nv
        per[name]["order_variants_compared"] = nv
        for x in v:
            x.update(adapter="c20", params={"scenario": name, "oracle": "order"}, history=[], event=None)
        viols += v
    seen = {}
    for v in viols:
        seen.setdefault((v["clause"], v["signature"]), v)
    cov = {
        "states": len(names) + variants, "transitions": fields + variants * 9, "traces_validated_against_impl": fields + variants,
        "samples": [{"scenario": names[0], "fields_compared": per[names[0]]["fields_compared"]}, {"scenario": "uc7", "detail": per.get("uc7")}],
        "exhaustive": True, "scenarios": per, "scenarios_total": len(names), "inventory_fields_compared": fields,
        "order_variants_compared": variants,
        "explanation": "complete enumeration of the shipped scenarios (every schedule episode) and of GEN + variants; per scenario an "
                       "independent inventory from the dict vs the built object graph, and trajectory digests of key-permuted/re-serialised copies",
    }
    return {"violations": list(seen.values()), "coverage": cov, "level": "model_checking",
            "assumptions": ["scenario options are compared with the software's validated config object and listen ports; whether each option is "
                            "honoured at run time is the subject of the behavioural properties",
                            "quick runs the key-order oracle on GEN, data_manipulation and the small schedules; thorough also on UC7"],
            "summary": "scenarios=%d inventory fields=%d order variants=%d wall=%.0fs" % (len(names), fields, variants, time.time() - t0)}
