"""C07 — ACL verdict = first matching rule by position, else the implicit action.

(1) exhaustive product: every rule of a covering field product x every packet of a covering packet set, and every
    ordered pair (thorough: triple) of a covering rule set at every position assignment over {first, second, last} slot,
    both implicit actions, against an independent integer-arithmetic reference; hit counters checked on every verdict.
(2) explicit-state BFS over add/remove operations through the Python API, the request API (real Router in a real
    Simulation) and the action classes' form_request, against a reference slot list; also Router.from_config.
"""
from __future__ import annotations

import itertools
import time
from ipaddress import IPv4Address

from .. import common, engine
from ..engine import violation

common.import_sim()

from primaite.simulator.network.hardware.nodes.network.router import ACLAction, AccessControlList, Router  # noqa: E402
from primaite.simulator.network.protocols.icmp import ICMPPacket  # noqa: E402
from primaite.simulator.network.transmission.data_link_layer import EthernetHeader, Frame  # noqa: E402
from primaite.simulator.network.transmission.network_layer import IPPacket  # noqa: E402
from primaite.simulator.network.transmission.transport_layer import TCPHeader, UDPHeader  # noqa: E402
from primaite.simulator.sim_container import Simulation  # noqa: E402
from primaite.simulator.system.core.sys_log import SysLog  # noqa: E402

PROP = "C07"

# ------------------------------------------------------------------------------------------ reference model
# rule = (action, proto, src_ip, src_wc, dst_ip, dst_wc, sport, dport); None = unspecified.
# Port value 0 is PORT_LOOKUP["NONE"] ("no port"): the reference treats it as unspecified (see DESIGN.md C07).


def _ip(s):
    return int(IPv4Address(s))


def ref_addr_match(rule_ip, rule_wc, pkt_ip):
    if rule_ip is None:
        return True
    if rule_wc is None:
        return _ip(rule_ip) == _ip(pkt_ip)
    keep = 0xFFFFFFFF ^ _ip(rule_wc)
    return (_ip(rule_ip) & keep) == (_ip(pkt_ip) & keep)


def ref_rule_match(rule, pkt):
    action, proto, sip, swc, dip, dwc, sport, dport = rule
    pproto, psrc, pdst, psport, pdport = pkt
    if proto is not None and proto != pproto:
        return False
    if not ref_addr_match(sip, swc, psrc) or not ref_addr_match(dip, dwc, pdst):
        return False
    if sport not in (None, 0) and sport != psport:
        return False
    if dport not in (None, 0) and dport != pdport:
        return False
    return True


def ref_verdict(slots, implicit, pkt):
    """slots: list of rule-or-None by position. Returns (permitted, deciding position or 'implicit')."""
    for pos, r in enumerate(slots):
        if r is not None and ref_rule_match(r, pkt):
            return r[0] == "PERMIT", pos
    return implicit == "PERMIT", "implicit"


# ------------------------------------------------------------------------------------------ real objects
def mk_frame(pkt):
    proto, src, dst, sport, dport = pkt
    kw = dict(
        ethernet=EthernetHeader(src_mac_addr="aa:aa:aa:aa:aa:01", dst_mac_addr="aa:aa:aa:aa:aa:02"),
        ip=IPPacket(src_ip_address=src, dst_ip_address=dst, protocol=proto),
    )
    if proto == "tcp":
        kw["tcp"] = TCPHeader(src_port=sport, dst_port=dport)
    elif proto == "udp":
        kw["udp"] = UDPHeader(src_port=sport, dst_port=dport)
    else:
        kw["icmp"] = ICMPPacket(identifier=7)
    return Frame(**kw)


def mk_acl(implicit, max_rules):
    return AccessControlList(sys_log=SysLog("acl"), implicit_action=ACLAction[implicit], name="acl", max_acl_rules=max_rules)


def add_real(acl, pos, rule):
    action, proto, sip, swc, dip, dwc, sport, dport = rule
    return acl.add_rule(action=ACLAction[action], protocol=proto, src_ip_address=sip, src_wildcard_mask=swc,
                        dst_ip_address=dip, dst_wildcard_mask=dwc, src_port=sport, dst_port=dport, position=pos)


ADDRS = ["10.0.1.5", "10.0.1.200", "10.0.2.5"]


def packets():
    out = []
    for proto in ("tcp", "udp"):
        for s in ADDRS:
            for d in ADDRS:
                for sp in (80, 1234):
                    for dp in (80, 21):
                        out.append((proto, s, d, sp, dp))
    for s in ADDRS:
        for d in ADDRS:
            out.append(("icmp", s, d, None, None))
    return out


SRC_SPECS = [(None, None), ("10.0.1.5", None), ("10.0.1.0", "0.0.0.255"), ("10.0.1.5", "0.0.0.127"), ("10.0.2.77", "0.0.255.255"),
             ("10.0.1.5", "0.0.0.0"),
             # wildcard masks whose ignored bits are not one low block (legal: any bit may be a "don't care")
             ("10.0.1.5", "0.0.255.0"), ("10.0.1.4", "0.0.0.254")]
DST_SPECS = [(None, None), ("10.0.2.5", None), ("10.0.1.0", "0.0.0.255"), ("10.0.1.200", "0.0.0.127"), ("10.0.9.5", "0.0.255.0")]


def single_rules():
    for action in ("PERMIT", "DENY"):
        for proto in (None, "tcp", "udp", "icmp"):
            for sip, swc in SRC_SPECS:
                for dip, dwc in DST_SPECS:
                    for sport in (None, 80, 0):
                        for dport in (None, 80, 21):
                            yield (action, proto, sip, swc, dip, dwc, sport, dport)


COVER = [
    ("DENY", None, None, None, None, None, None, None),
    ("PERMIT", None, None, None, None, None, None, None),
    ("PERMIT", "tcp", None, None, None, None, None, 80),
    ("DENY", "tcp", "10.0.1.0", "0.0.0.255", None, None, None, None),
    ("PERMIT", "tcp", "10.0.1.5", None, "10.0.2.5", None, None, 80),
    ("DENY", "udp", None, None, "10.0.1.0", "0.0.0.255", None, None),
    ("PERMIT", "icmp", None, None, None, None, None, None),
    ("DENY", None, "10.0.1.200", None, None, None, None, None),
    ("PERMIT", None, None, None, "10.0.2.5", None, 80, None),
    ("DENY", None, "10.0.1.5", "0.0.0.127", "10.0.1.200", "0.0.0.127", None, None),
    ("PERMIT", "udp", None, None, None, None, 1234, 21),
    ("DENY", "tcp", None, None, None, None, 80, 21),
    ("DENY", None, "10.0.9.5", "0.0.255.0", None, None, None, None),
]

_PKTS = None
_FRAMES = None


def _frames():
    global _PKTS, _FRAMES
    if _FRAMES is None:
        _PKTS = packets()
        _FRAMES = [mk_frame(p) for p in _PKTS]
    return _PKTS, _FRAMES


def _counts(acl):
    return [r.match_count if r is not None else None for r in acl.acl] + [acl.implicit_rule.match_count]


_WITNESS = {}


def _witness(implicit):
    """A second list of the same process with the same implicit action and one catch-all rule: its counters are looked at after
    every verdict of the list under evaluation ('exactly the deciding rule' leaves every other list's counters alone)."""
    if implicit not in _WITNESS:
        w = mk_acl(implicit, 5)
        add_real(w, 0, ("PERMIT", "udp", "10.9.9.9", None, None, None, None, None))
        _WITNESS[implicit] = w
    return _WITNESS[implicit]


def eval_config(item):
    """item = (max_rules, implicit, ((pos, rule), ...)). Returns (n_verdicts, n_nontrivial, violations)."""
    max_rules, implicit, placed = item
    pkts, frames = _frames()
    wit = _witness(implicit)
    wit0 = _counts(wit)
    acl = mk_acl(implicit, max_rules)
    fresh = _counts(acl)
    if any(c for c in fresh if c):
        return 0, 0, [violation("hit_counter", "counter:fresh-list-not-zero", "a newly built list (implicit %s) starts with counters %s" % (implicit, fresh))]
    slots = [None] * (max_rules - 1)
    for pos, rule in placed:
        add_real(acl, pos, rule)
        slots[pos] = rule
    viols = []
    nontrivial = 0
    sig_rules = "rules=%d" % len(placed)
    for pkt, fr in zip(pkts, frames):
        before = _counts(acl)
        permitted, rule_obj = acl.is_permitted(fr)
        after = _counts(acl)
        exp_permit, exp_pos = ref_verdict(slots, implicit, pkt)
        if exp_pos != "implicit":
            nontrivial += 1
        got_pos = "implicit" if rule_obj is acl.implicit_rule else next((i for i, r in enumerate(acl.acl) if r is rule_obj), "?")
        if bool(permitted) != exp_permit or got_pos != exp_pos:
            viols.append(violation(
                "first_match_verdict", _shape(placed, exp_pos, got_pos),
                "implicit=%s rules=%s packet=%s: expected permit=%s by %s, got permit=%s by %s" % (
                    implicit, placed, pkt, exp_permit, exp_pos, permitted, got_pos)))
            continue
        # hit counters: exactly the deciding rule +1
        idx = len(after) - 1 if exp_pos == "implicit" else exp_pos
        for i, (b, a) in enumerate(zip(before, after)):
            want = (b + 1) if i == idx else b
            if a != want:
                viols.append(violation("hit_counter", "counter:%s" % sig_rules,
                                       "rules=%s packet=%s: counter of slot %s went %s -> %s, deciding slot %s" % (
                                           placed, pkt, i, b, a, exp_pos)))
                break
        if _counts(wit) != wit0:
            viols.append(violation("hit_counter", "counter:another-list-changed",
                                   "rules=%s packet=%s: the verdict of this list changed the counters of ANOTHER list %s -> %s" % (
                                       placed, pkt, wit0, _counts(wit))))
            wit0 = _counts(wit)
    return len(frames), nontrivial, viols[:5]


def _shape(placed, exp_pos, got_pos):
    """Signature: which fields the (expected or observed) deciding rule specifies."""
    d = dict(placed)
    r = d.get(exp_pos if exp_pos != "implicit" else got_pos)
    if r is None:
        return "verdict:implicit-expected"
    names = ["proto", "src", "srcwc", "dst", "dstwc", "sport", "dport"]
    spec = [n for n, v in zip(names, r[1:]) if v is not None]
    return "verdict:n=%d:fields=%s" % (len(placed), "+".join(spec) or "none")


# ------------------------------------------------------------------------------------------ BFS over add/remove
OPS_RULES = [
    ("PERMIT", "tcp", "10.0.1.5", None, "10.0.2.5", None, None, 80),
    ("DENY", "udp", "10.0.1.0", "0.0.0.255", None, None, 1234, None),
    ("DENY", None, None, None, None, None, None, None),
]


class AclOps(engine.Adapter):
    """State = contents of the ACL of a real Router (request/action modes) or a bare AccessControlList (api mode)."""

    def __init__(self, mode, max_rules=5, init=()):
        self.mode = mode
        self.init = [tuple(e) for e in init]  # events applied by build(): a list that already holds rules and has judged packets
        self.max_rules = max_rules if mode == "api" else 25
        self.name = "c07-ops-%s%s" % (mode, "-i%d" % len(self.init) if self.init else "")
        n = self.max_rules - 1
        self.positions = [-1, 0, 1, n - 1, n, n + 1]
        self.pkts = [("tcp", "10.0.1.5", "10.0.2.5", 1234, 80), ("udp", "10.0.1.200", "10.0.2.5", 1234, 21),
                     ("icmp", "10.0.2.5", "10.0.1.5", None, None)]

    def params(self):
        return {"mode": self.mode, "max_rules": self.max_rules, "init": [list(e) for e in self.init]}

    def build(self):
        class S:
            pass

        s = S()
        if self.mode == "api":
            s.acl = mk_acl("DENY", self.max_rules)
            s.ref = [None] * (self.max_rules - 1)
        else:
            s.sim = Simulation()
            r = Router.from_config({"type": "router", "hostname": "r", "num_ports": 2, "start_up_duration": 0})
            r.power_on()
            s.sim.network.add_node(r)
            s.acl = r.acl
            s.ref = [None] * 24
            s.ref[22] = ("PERMIT", None, None, None, None, None, 219, 219)
            s.ref[23] = ("PERMIT", "icmp", None, None, None, None, None, None)
        s.counts = {}
        for ev in self.init:
            self.apply(s, ev)
        return s

    def menu(self, s):
        m = []
        for p in self.positions:
            for i, _ in enumerate(OPS_RULES):
                m.append(("add", p, i))
            m.append(("remove", p))
        m.append(("packets",))
        return m

    def _request(self, ev):
        if ev[0] == "add":
            a, proto, sip, swc, dip, dwc, sp, dp = OPS_RULES[ev[2]]
            if self.mode == "act":
                from primaite.game.agent.actions import ActionManager  # noqa
                from primaite.game.agent.actions.abstract import AbstractAction

                cls = AbstractAction._registry["router-acl-add-rule"]
                return cls.form_request(cls.ConfigSchema(
                    type="router-acl-add-rule", target_router="r", permission=a, protocol_name=proto or "ALL",
                    src_ip=sip or "ALL", src_wildcard=swc or "NONE", src_port=sp if sp is not None else "ALL",
                    dst_ip=dip or "ALL", dst_wildcard=dwc or "NONE", dst_port=dp if dp is not None else "ALL", position=ev[1]))
            return ["network", "node", "r", "acl", "add_rule", a, proto or "ALL", sip or "ALL", swc or "NONE",
                    sp if sp is not None else "ALL", dip or "ALL", dwc or "NONE", dp if dp is not None else "ALL", ev[1]]
        if self.mode == "act":
            from primaite.game.agent.actions import ActionManager  # noqa
            from primaite.game.agent.actions.abstract import AbstractAction

            cls = AbstractAction._registry["router-acl-remove-rule"]
            return cls.form_request(cls.ConfigSchema(type="router-acl-remove-rule", target_router="r", position=ev[1]))
        return ["network", "node", "r", "acl", "remove_rule", ev[1]]

    def apply(self, s, ev):
        viols = []
        n = len(s.ref)
        sig = "%s:%s:%s" % (self.mode, ev[0], "in-range" if len(ev) > 1 and 0 <= ev[1] < n else
                            ("na" if len(ev) == 1 else ("pos=%+d" % (ev[1] - n) if ev[1] >= n else "neg")))
        if ev[0] == "packets":
            out = []
            for pkt in self.pkts:
                before = _counts(s.acl)
                permitted, rule_obj = s.acl.is_permitted(mk_frame(pkt))
                exp_permit, exp_pos = ref_verdict(s.ref, "DENY", pkt)
                got_pos = "implicit" if rule_obj is s.acl.implicit_rule else next(
                    (i for i, r in enumerate(s.acl.acl) if r is rule_obj), "?")
                out.append([bool(permitted), got_pos])
                if bool(permitted) != exp_permit or got_pos != exp_pos:
                    viols.append(violation("first_match_verdict", sig, "slots=%s packet=%s expected (%s,%s) got (%s,%s)" % (
                        s.ref, pkt, exp_permit, exp_pos, permitted, got_pos)))
                after = _counts(s.acl)
                idx = len(after) - 1 if exp_pos == "implicit" else exp_pos
                if any(a != (b + 1 if i == idx else b) for i, (b, a) in enumerate(zip(before, after)) if b is not None):
                    viols.append(violation("hit_counter", sig, "counters %s -> %s deciding %s" % (before, after, exp_pos)))
            return out, viols
        in_range = 0 <= ev[1] < n
        want = list(s.ref)
        if in_range:
            want[ev[1]] = OPS_RULES[ev[2]] if ev[0] == "add" else None
        outcome = None
        try:
            if self.mode == "api":
                if ev[0] == "add":
                    outcome = bool(add_real(s.acl, ev[1], OPS_RULES[ev[2]]))
                else:
                    outcome = bool(s.acl.remove_rule(ev[1]))
            else:
                resp = s.sim.apply_request(self._request(ev))
                outcome = resp.status
        except (ValueError, IndexError) as e:
            outcome = "raised-" + type(e).__name__
            if in_range:
                viols.append(violation("in_range_position_accepted", sig, "%s raised %r" % (list(ev), e)))
        except Exception as e:  # noqa
            outcome = "raised-" + type(e).__name__
            viols.append(violation("no_unexpected_exception", sig, "%s raised %r" % (list(ev), e)))
        if in_range and outcome not in (True, "success"):
            viols.append(violation("in_range_position_accepted", sig, "%s answered %r" % (list(ev), outcome)))
        if not in_range and outcome in (True, "success"):
            viols.append(violation("out_of_range_not_success", sig, "%s answered %r" % (list(ev), outcome)))
        got = self._read(s)
        if got != want:
            diff = [i for i in range(max(len(got), len(want))) if (got[i] if i < len(got) else "?") != (want[i] if i < len(want) else "?")]
            viols.append(violation("only_addressed_slot_changes", sig, "%s: slots %s differ: got %s want %s" % (
                list(ev), diff, [got[i] if i < len(got) else "?" for i in diff], [want[i] if i < len(want) else "?" for i in diff])))
        else:
            s.ref = want
        return outcome, viols

    def _read(self, s):
        """Slot contents from describe_state (the reported state) cross-checked with the live list."""
        st = s.acl.describe_state()["acl"]
        out = []
        for i in range(len(st)):
            d = st[i]
            if d is None:
                out.append(None)
                continue
            out.append((ACLAction(d["action"]).name, d["protocol"], d["src_ip_address"], d["src_wildcard_mask"],
                        d["dst_ip_address"], d["dst_wildcard_mask"], d["src_port"], d["dst_port"]))
        live = []
        for r in s.acl.acl:
            live.append(None if r is None else (
                r.action.name, r.protocol, str(r.src_ip_address) if r.src_ip_address else None,
                str(r.src_wildcard_mask) if r.src_wildcard_mask else None, str(r.dst_ip_address) if r.dst_ip_address else None,
                str(r.dst_wildcard_mask) if r.dst_wildcard_mask else None, r.src_port, r.dst_port))
        if live != out:
            return ["describe_state disagrees with live list", out, live]
        return out

    def canon(self, s):
        return (tuple(self._read(s)), tuple(_counts(s.acl)))


def make_adapter(params):
    return AclOps(params["mode"], params.get("max_rules", 5), params.get("init", ()))


def replay(doc):
    if doc.get("adapter", "").startswith("c07-ops"):
        ad = make_adapter(doc["params"])
        s = ad.build()
        for ev in doc["history"]:
            ad.apply(s, tuple(ev))
        _, v = ad.apply(s, tuple(doc["event"]))
        return v
    if doc.get("adapter") == "c07-config":
        return check_from_config(doc["params"]["variant"])
    item = doc["params"]["item"]
    item = (item[0], item[1], tuple((p, tuple(r)) for p, r in item[2]))
    return eval_config(item)[2]


# ------------------------------------------------------------------------------------------ from_config
def check_from_config(variant):
    """Router.from_config / Firewall.from_config place each configured rule at its stated position."""
    viols = []
    names = {80: "HTTP", 21: "FTP", 1234: None}
    cfg_rules = {}
    ref = [None] * 24
    ref[22] = ("PERMIT", None, None, None, None, None, 219, 219)
    ref[23] = ("PERMIT", "icmp", None, None, None, None, None, None)
    picks = {"low": [0, 1, 2], "mixed": [0, 5, 21], "overwrite-defaults": [22, 23, 3], "reverse-order": [9, 4, 0]}[variant]
    rules = [("PERMIT", "tcp", "10.0.1.5", None, "10.0.2.5", None, None, 80),
             ("DENY", "udp", "10.0.1.0", "0.0.0.255", None, None, None, 21),
             ("DENY", None, None, None, "10.0.2.5", None, 80, None)]
    for pos, r in zip(picks, rules):
        a, proto, sip, swc, dip, dwc, sp, dp = r
        d = {"action": a}
        if proto:
            d["protocol"] = proto.upper()
        if sip:
            d["src_ip"] = sip
        if swc:
            d["src_wildcard_mask"] = swc
        if dip:
            d["dst_ip"] = dip
        if dwc:
            d["dst_wildcard_mask"] = dwc
        if sp:
            d["src_port"] = names[sp]
        if dp:
            d["dst_port"] = names[dp]
        cfg_rules[pos] = d
        ref[pos] = r
    router = Router.from_config({"type": "router", "hostname": "r", "num_ports": 2, "acl": dict(cfg_rules)})
    ad = AclOps("req")

    class S:
        pass

    s = S()
    s.acl = router.acl
    got = ad._read(s)
    if got != ref:
        diff = [i for i in range(24) if got[i] != ref[i]] if len(got) == 24 else "shape"
        viols.append(violation("config_rule_at_stated_position", "router.from_config:%s" % variant,
                               "slots %s differ: got %s want %s" % (diff, got, ref)))
    # episode set-up (what env.reset runs after loading) neither adds nor removes a rule: every slot keeps its content
    for ep in (1, 2):
        router.setup_for_episode(episode=ep)
        got = ad._read(s)
        if got != ref:
            diff = [i for i in range(24) if got[i] != ref[i]] if len(got) == 24 else "shape"
            viols.append(violation("only_addressed_slot_changes", "router.setup_for_episode:%s" % variant,
                                   "after setup_for_episode(%d) slots %s differ from the loaded rule list: got %s want %s" % (
                                       ep, diff, [got[i] for i in diff] if diff != "shape" else got, [ref[i] for i in diff] if diff != "shape" else ref)))
            break
    return viols


# ------------------------------------------------------------------------------------------ run
def run(tier, is_known):
    t0 = time.time()
    thorough = tier == "thorough"
    viols = []
    items = []
    # singles: slot 0 and the last slot, both implicit actions, both list sizes
    for rule in single_rules():
        for implicit in ("DENY", "PERMIT"):
            items.append((5, implicit, ((0, rule),)))
        items.append((25, "DENY", ((23, rule),)))
    n_single = len(items)
    # pairs (thorough: triples) over the covering set at every assignment to {0,1,last}
    slots_small = [0, 1, 3]
    for r1, r2 in itertools.permutations(COVER, 2):
        for p1, p2 in itertools.permutations(slots_small, 2):
            for implicit in ("DENY", "PERMIT"):
                items.append((5, implicit, ((p1, r1), (p2, r2))))
    if thorough:
        for r1, r2, r3 in itertools.permutations(COVER, 3):
            for ps in itertools.permutations(slots_small, 3):
                for implicit in ("DENY", "PERMIT"):
                    items.append((5, implicit, tuple(zip(ps, (r1, r2, r3)))))
        for r1, r2 in itertools.permutations(COVER, 2):
            for p1, p2 in itertools.permutations([0, 11, 23], 2):
                items.append((25, "PERMIT", ((p1, r1), (p2, r2))))
    evals = 0
    nontrivial = 0
    samples = []
    for item, (n, nt, v) in engine.pmap("c07-config-eval", eval_config, items, chunksize=16):
        evals += n
        nontrivial += nt
        for x in v:
            x.update(adapter="c07-product", params={"item": item}, history=[], event=None)
        viols += v
        if len(samples) < 2 and len(item[2]) == 2:
            samples.append({"max_rules": item[0], "implicit": item[1], "rules_at_positions": item[2]})
    # from_config
    cfg_variants = ["low", "mixed", "overwrite-defaults", "reverse-order"]
    for var in cfg_variants:
        v = check_from_config(var)
        for x in v:
            x.update(adapter="c07-config", params={"variant": var}, history=[], event=None)
        viols += v
    # operation sequences
    per = []
    states = trans = 0
    USED = [("add", 0, 0), ("add", 1, 2), ("packets",)]  # start state: two rules in place, every packet judged once
    for mode, depth, init in (("api", 5 if thorough else 3, ()), ("req", 4 if thorough else 2, ()), ("act", 4 if thorough else 2, ()),
                              ("api", 5 if thorough else 3, USED), ("req", 4 if thorough else 3, USED)):
        ad = AclOps(mode, init=init)
        try:
            r = engine.bfs(ad, depth, state_budget=200000, time_budget=1200 if thorough else 240, is_known=is_known)
        except engine.HarnessError as e:
            if not viols:
                raise
            # the product part has already shown a violation (e.g. counters shared between lists make replays differ):
            # report that instead of losing it behind the explorer's own determinism self-check
            per.append({"adapter": ad.name, "not_explored": "explorer self-check failed after a violation was found: %s" % str(e)[:200]})
            continue
        viols += r.violations
        states += r.states
        trans += r.transitions
        per.append({"adapter": ad.name, "depth_completed": r.max_depth_completed, "states": r.states, "transitions": r.transitions,
                    "merged_by_canon": r.merged, "cap": r.capped, "frontier_emptied": r.frontier_emptied,
                    "pruned_after_violation": r.pruned, "determinism_replays": r.determinism_checked})
        samples += r.samples[:1]
    cov = {
        "states": states + len(items), "transitions": trans + evals,
        "traces_validated_against_impl": trans + evals,
        "samples": samples,
        "exhaustive": all(p.get("cap", "x") is None for p in per),
        "rule_configurations": len(items), "single_rule_configurations": n_single,
        "verdicts_compared": evals, "verdicts_decided_by_a_rule": nontrivial,
        "packets": len(packets()), "from_config_variants": cfg_variants, "operation_harnesses": per,
        "explanation": "complete product of rule configurations x packets evaluated on real AccessControlList objects against an "
                       "independent reference (verdict, deciding slot, hit counters); BFS over add/remove through API, request tree and action classes",
    }
    return {"violations": viols, "coverage": cov, "level": "model_checking",
            "assumptions": ["port value 0 (PORT_LOOKUP NONE) and an absent port both mean 'unspecified'",
                            "addresses 10.0.1.5/10.0.1.200/10.0.2.5, ports 80/21/1234: covering set, not all 2^32 addresses",
                            "out-of-range positions: only the state effect (no slot changes, not 'success') is checked here; "
                            "whether they are answered rather than raised belongs to C05"],
            "summary": "configs=%d verdicts=%d ops-states=%d ops-transitions=%d wall=%.0fs" % (
                len(items), evals, states, trans, time.time() - t0)}
