"""C19 — scripted green/red agents act only when and how their settings allow.

Every RNG draw of a scripted agent is a *choice point* owned by the harness (seam on the agent module's ``random``, on
``science.random`` and on the probabilistic agent's generator); all outcomes are enumerated, so the result holds for
every seed - nothing is sampled.
  A. periodic agents (periodic-agent, red-database-corrupting-agent): product of settings x complete RNG choice tree over
     a fixed horizon (thorough: x one blue interference at any step) on a real PrimaiteGame; schedule oracle on the history.
  B. probabilistic agent: the probability vector handed to the sampler is index-aligned with the action map; every index
     with p > 0 is answered by the seam; the action taken is the action-map entry of that index; p = 0 is never answered.
  C. threat actors TAP001 / TAP003 on the shipped UC7 scenarios (probabilities < 1, variance 1, both repeat settings):
     deviation-bounded enumeration over {stage-probability outcome, timing increment, start node, target choice, one blue
     interference action}; kill-chain order oracle sampled after every step.
"""
from __future__ import annotations

import copy
import itertools
import time

from .. import common, engine, harness_env as HE
from ..engine import violation

common.import_sim()

PROP = "C19"


# ------------------------------------------------------------------------------------------------------------
# choice-point seam
# ------------------------------------------------------------------------------------------------------------
class Chooser:
    """Answers every draw from a script (list of option indices); beyond the script answers 0 and logs the arity."""

    def __init__(self, script=()):
        self.script = list(script)
        self.log = []  # (kind, n_options, chosen)

    def _pick(self, kind, n):
        i = len(self.log)
        c = self.script[i] if i < len(self.script) else 0
        if c >= n:
            raise engine.HarnessError("choice script out of range at draw %d: %d of %d" % (i, c, n))
        self.log.append((kind, n, c))
        return c

    # the interface of the ``random`` module that the agents use
    def randint(self, a, b):
        order = sorted(range(a, b + 1), key=lambda x: (abs(x), x))  # 0 first: the default is "no variance"
        return order[self._pick("randint", b - a + 1)]

    def choice(self, seq):
        seq = list(seq)
        return seq[self._pick("choice", len(seq))]

    def random(self):
        # simulate_trial(p) succeeds iff random() < p : answer 0 = success (0.0), answer 1 = failure (just below 1)
        return [0.0, 0.999999][self._pick("random", 2)]


class _SeamCtx:
    """Install a Chooser into the agent modules for the duration of one execution."""

    MODS = ["primaite.game.agent.scripted_agents.random_agent", "primaite.game.agent.scripted_agents.abstract_tap",
            "primaite.game.agent.scripted_agents.TAP001", "primaite.game.agent.scripted_agents.TAP003"]

    def __init__(self, chooser):
        self.ch = chooser
        self.saved = []

    def __enter__(self):
        import importlib

        for m in self.MODS:
            mod = importlib.import_module(m)
            if hasattr(mod, "random"):
                self.saved.append((mod, "random", mod.random))
                mod.random = self.ch
        sci = importlib.import_module("primaite.game.science")
        self.saved.append((sci, "random", sci.random))
        sci.random = self.ch.random
        return self.ch

    def __exit__(self, *a):
        for mod, name, val in self.saved:
            setattr(mod, name, val)


def rng_tree(run):
    """Enumerate the complete choice tree of ``run(script) -> (log, result)`` depth-first. Yields (script, result)."""
    stack = [()]
    while stack:
        script = stack.pop()
        log, result = run(script)
        yield tuple(c for _, _, c in log), result
        # alternatives at every draw beyond the given prefix
        for i in range(len(script), len(log)):
            for alt in range(1, log[i][1]):
                stack.append(tuple(c for _, _, c in log[:i]) + (alt,))


# ------------------------------------------------------------------------------------------------------------
# A. periodic agents
# ------------------------------------------------------------------------------------------------------------
def _periodic_cfg(kind, st):
    settings = {"possible_start_nodes": list(st["nodes"]), "target_application": "web-browser", "start_step": st["start"],
                "frequency": st["f"], "variance": st["v"]}
    if kind == "periodic-agent":
        settings["start_variance"] = st["sv"]
        if st["max"] is not None:
            settings["max_executions"] = st["max"]
    agents = [{"ref": "scripted", "team": "RED", "type": kind, "agent_settings": settings}]
    agents.append({"ref": "blue", "team": "BLUE", "type": "proxy-agent",
                   "action_space": {"action_map": {0: {"action": "do-nothing", "options": {}},
                                                   1: {"action": "node-shutdown", "options": {"node_name": "pc1"}},
                                                   2: {"action": "node-application-close", "options": {"node_name": "pc1", "application_name": "web-browser"}}}}})
    nodes = [{"hostname": h, "type": "computer", "ip_address": "10.0.0.%d" % (i + 2), "subnet_mask": "255.255.255.0",
              "start_up_duration": 1, "shut_down_duration": 1,
              "applications": [{"type": "web-browser", "options": {"target_url": "http://x.y/"}}]} for i, h in enumerate(("pc1", "pc2", "pc3"))]
    return {"game": {"max_episode_length": 64, "ports": ["HTTP"], "protocols": ["TCP"]}, "agents": agents,
            "simulation": {"network": {"nodes": nodes, "links": []}}}


def check_periodic(item):
    from primaite.game.game import PrimaiteGame

    kind, st, blue_dev, H = item
    st = dict(st)
    cfg = _periodic_cfg(kind, st)
    viols = {}
    n_exec = 0
    outcomes = set()

    def run(script):
        ch = Chooser(script)
        with _SeamCtx(ch):
            game = PrimaiteGame.from_config(copy.deepcopy(cfg))
            for t in range(H):
                game.agents["blue"].store_action(blue_dev[1] if blue_dev and blue_dev[0] == t else 0)
                game.step()
            hist = [(h.timestep, h.action, dict(h.parameters), h.response.status) for h in game.agents["scripted"].history]
        return ch.log, hist

    sigbase = "%s:sv=%s:v=%s:max=%s:nodes=%d%s" % (kind, st.get("sv"), st["v"], st["max"], len(st["nodes"]), ":blue" if blue_dev else "")
    for script, hist in rng_tree(run):
        n_exec += 1
        acts = [(t, a, p) for t, a, p, _ in hist if a != "do-nothing"]
        outcomes.add(tuple(t for t, _, _ in acts))

        def bad(clause, detail):
            viols.setdefault(clause, violation(clause, sigbase, "settings %r blue %r rng answers %r: %s; actions at %r" % (
                st, blue_dev, list(script), detail, [t for t, _, _ in acts])))

        if len(hist) != H:
            bad("one_action_per_step", "history has %d items after %d steps" % (len(hist), H))
        sv = st["sv"] if kind == "periodic-agent" else 0
        if acts:
            t0 = acts[0][0]
            if not (st["start"] - sv <= t0 <= st["start"] + sv):
                bad("first_action_within_start_window", "first action at step %d, allowed [%d, %d]" % (t0, st["start"] - sv, st["start"] + sv))
            for (ta, _, _), (tb, _, _) in zip(acts, acts[1:]):
                if not (st["f"] - st["v"] <= tb - ta <= st["f"] + st["v"]):
                    bad("gap_within_frequency_plus_minus_variance", "gap %d between steps %d and %d, allowed [%d, %d]" % (
                        tb - ta, ta, tb, st["f"] - st["v"], st["f"] + st["v"]))
            if kind == "periodic-agent" and st["max"] is not None and len(acts) > st["max"]:
                bad("at_most_max_executions", "%d actions, max_executions %d" % (len(acts), st["max"]))
            nodes_used = {p.get("node_name") for _, _, p in acts}
            if len(nodes_used) != 1 or not nodes_used <= set(st["nodes"]):
                bad("only_from_one_configured_start_node", "nodes used %r, configured %r" % (sorted(map(str, nodes_used)), st["nodes"]))
            for t, a, p in acts:
                if a != "node-application-execute" or p.get("application_name") != "web-browser":
                    bad("only_configured_action", "step %d action %s %r" % (t, a, p))
        # must act if a whole start window + one step fits into the horizon (vacuity guard, not a clause of the property)
    return n_exec, len(outcomes), list(viols.values())


def periodic_items(tier):
    items = []
    H = 12 if tier == "thorough" else 10
    for kind in ("periodic-agent", "red-database-corrupting-agent"):
        for start, sv, f, v, mx, nodes in itertools.product((1, 3), (0, 1), (2, 3), (0, 1), (1, 2, None), (("pc1",), ("pc1", "pc2"))):
            if kind != "periodic-agent" and (sv != 0 or mx is not None):
                continue
            st = {"start": start, "sv": sv, "f": f, "v": v, "max": mx, "nodes": nodes}
            items.append((kind, tuple(sorted(st.items())), None, H))
            if tier == "thorough" and v == 1 and nodes == ("pc1", "pc2"):
                for t in range(0, H, 2):
                    for a in (1, 2):
                        items.append((kind, tuple(sorted(st.items())), (t, a), H))
    return items


# ------------------------------------------------------------------------------------------------------------
# B. probabilistic agent
# ------------------------------------------------------------------------------------------------------------
def check_probabilistic(item):
    import numpy as np
    from primaite.game.game import PrimaiteGame

    probs, order = item
    probs = list(probs)
    n = len(probs)
    amap = {0: {"action": "do-nothing", "options": {}}}
    for i in range(1, n):
        amap[i] = {"action": "node-application-execute", "options": {"node_name": "pc%d" % i, "application_name": "web-browser"}}
    ap = {i: probs[i] for i in order}
    cfg = _periodic_cfg("periodic-agent", {"start": 1, "sv": 0, "f": 2, "v": 0, "max": None, "nodes": ("pc1",)})
    cfg["agents"] = [{"ref": "green", "team": "GREEN", "type": "probabilistic-agent", "agent_settings": {"action_probabilities": ap},
                      "action_space": {"action_map": amap}}]
    viols = {}
    sig = "n=%d:zeros=%d:order=%s" % (n, sum(1 for p in probs if p == 0), "natural" if list(order) == sorted(order) else "permuted")
    evals = 0
    for answer in range(n):
        if probs[answer] == 0:
            continue
        game = PrimaiteGame.from_config(copy.deepcopy(cfg))
        ag = game.agents["green"]
        seen = []

        class FakeRng:
            def choice(self_, a, p=None, **kw):
                seen.append((a, None if p is None else [float(x) for x in p]))
                return answer

        ag.rng = FakeRng()
        game.step()
        evals += 1
        h = ag.history[-1]
        if len(seen) != 1:
            viols.setdefault("one_draw_per_step", violation("one_draw_per_step", sig, "sampler called %d times in one step" % len(seen)))
            continue
        a, p = seen[0]
        if a != n or p is None or len(p) != n or any(abs(p[i] - probs[i]) > 1e-12 for i in range(n)):
            viols.setdefault("probability_vector_aligned_with_action_map", violation(
                "probability_vector_aligned_with_action_map", sig,
                "configured probabilities by action index %r (written in key order %r); the sampler was given n=%r p=%r" % (probs, list(order), a, p)))
        want = amap[answer]
        if h.action != want["action"] or dict(h.parameters) != want["options"]:
            viols.setdefault("action_is_the_sampled_index", violation(
                "action_is_the_sampled_index", sig, "sampler answered index %d (p=%s) but the agent did %s %r" % (answer, probs[answer], h.action, h.parameters)))
    return evals, list(viols.values())


def probabilistic_items():
    items = []
    tables = [(1.0,), (0.5, 0.5), (0.0, 1.0), (1.0, 0.0), (0.3, 0.6, 0.1), (0.0, 0.4, 0.6), (0.5, 0.0, 0.5), (0.25, 0.25, 0.25, 0.25),
              (0.0, 0.0, 1.0, 0.0)]
    for t in tables:
        for order in itertools.permutations(range(len(t))):
            items.append((t, order))
    return items


# ------------------------------------------------------------------------------------------------------------
# C. threat actors
# ------------------------------------------------------------------------------------------------------------
class TapAdapter(engine.DevAdapter):
    """Real PrimaiteGymEnv on a shipped UC7 scenario with modified TAP settings. A deviation at step t is either a blue
    action or an alternative answer of the j-th RNG draw made during step t."""

    dev_chunks = 4

    def __init__(self, name, scenario, settings, blue_alts=6, rng_draws=2):
        self.name = name
        self.scenario = scenario
        self.settings = settings
        self.blue_alts = blue_alts
        self.rng_draws = rng_draws

    def params(self):
        return {"scenario": self.scenario, "settings": self.settings, "name": self.name}

    def build(self):
        from .. import seams

        Env = HE.import_env()
        seams.reset()

        class S:
            pass

        s = S()
        cfg = HE.load_yaml(HE.SHIPPED[self.scenario])
        red = [a for a in cfg["agents"] if a["type"] in ("tap-001", "tap-003")][0]
        st = red["agent_settings"]
        st["variance"] = self.settings.get("variance", 0)
        st["frequency"] = self.settings.get("frequency", st.get("frequency", 5))
        st["repeat_kill_chain"] = self.settings.get("repeat_kill_chain", False)
        st["repeat_kill_chain_stages"] = self.settings.get("repeat_kill_chain_stages", True)
        if self.settings.get("starting_nodes"):
            st["starting_nodes"] = self.settings["starting_nodes"]
        for stage, opts in (st.get("kill_chain") or {}).items():
            if isinstance(opts, dict) and "probability" in opts:
                opts["probability"] = self.settings.get("probability", opts["probability"])
        cfg["game"]["max_episode_length"] = 1000
        s.red_ref = red["ref"]
        s.red_cfg = st
        s.chooser = Chooser(())
        s.ctx = _SeamCtx(s.chooser)
        s.ctx.__enter__()
        s.env = Env(cfg)
        s.env.reset(seed=5)
        s.step = 0
        s.pending = {}  # draw index within the next step -> alternative answer
        s.trace = []
        s.model = None
        amap = s.env.agent.action_manager.action_map
        # one representative blue interference per action type that can hinder an attacker
        names = ("node-shutdown", "node-application-remove", "node-application-close", "router-acl-add-rule", "firewall-acl-add-rule",
                 "host-nic-disable", "node-service-stop", "node-file-delete", "node-account-change-password", "node-session-remote-logoff")
        seen = set()
        s.blue = []
        for i in sorted(amap):
            if amap[i][0] in names and amap[i][0] not in seen:
                seen.add(amap[i][0])
                s.blue.append(i)
        s.blue = s.blue[: self.blue_alts]
        return s

    def default_event(self, s, t):
        return ("step", 0)

    def alternatives(self, s, t, left):
        ev = [("step", a) for a in s.blue]
        for j in range(self.rng_draws):
            for alt in (1, 2):
                ev.append(("rng", j, alt))
        return ev

    def label(self, ev):
        return ev[0]

    def canon(self, s):
        return (s.step,)

    def apply(self, s, ev):
        red = s.env.game.agents[s.red_ref]
        pre_stage = red.current_kill_chain_stage
        pre_n = len(s.chooser.log)
        if ev[0] == "rng":
            # script the j-th draw of this step
            j, alt = ev[1], ev[2]
            ch = s.chooser
            base = len(ch.log)
            ch.script = [c for _, _, c in ch.log] + [0] * j + [alt]
            # an alternative beyond the arity of the draw is clipped to the last option
            orig_pick = ch._pick

            def pick(kind, n, orig_pick=orig_pick, ch=ch):
                i = len(ch.log)
                if i < len(ch.script) and ch.script[i] >= n:
                    ch.script[i] = n - 1
                return orig_pick(kind, n)

            ch._pick = pick
            action = 0
        else:
            action = ev[1]
        try:
            s.env.step(action)
        except Exception as e:  # noqa
            return "raised-" + type(e).__name__, [violation("not_this_property:step_raised", "tap:%s" % type(e).__name__, repr(e)[:300])]
        s.step += 1
        red = s.env.game.agents[s.red_ref]
        h = red.history[-1]
        post_stage = red.current_kill_chain_stage
        draws = s.chooser.log[pre_n:]
        viols = self._oracle(s, red, pre_stage, post_stage, h)
        return [str(post_stage.name if hasattr(post_stage, "name") else post_stage), h.action, h.response.status, len(draws)], viols

    def _oracle(self, s, red, pre, post, h):
        v = []
        kc = red.selected_kill_chain
        stages = sorted(int(m) for m in kc if int(m) < 100)
        # the chain this agent is configured with ends at the last stage its kill_chain options define (the insider's enumeration
        # also names later stages - EMBED .. ERASE - that its options and its implementation do not have)
        opts = getattr(red.config.agent_settings, "kill_chain", None)
        named = {m.name for m in kc}
        have = [int(kc[n]) for n in (type(opts).model_fields if opts is not None else ()) if n in named]
        if have:
            stages = [x for x in stages if x <= max(have)]
        first, last = stages[0], stages[-1]
        NOT_STARTED, SUCCEEDED, FAILED = 100, 200, 300
        a, b = int(pre), int(post)
        sig = "%s:%s->%s" % (type(red).__name__, getattr(pre, "name", pre), getattr(post, "name", post))
        st = s.red_cfg
        ok = False
        if a == b:
            ok = True
        elif a == NOT_STARTED and b == first:
            ok = True
        elif a in stages and b == a + 1 and b in stages:
            ok = True
        elif a == last and b == SUCCEEDED:
            ok = True
        elif b == FAILED and a in stages:
            ok = not st.get("repeat_kill_chain_stages", True)
            if not ok:
                v.append(violation("stage_failure_only_when_stages_are_not_repeated", sig,
                                   "step %d: stage went %s -> FAILED although repeat_kill_chain_stages is true" % (s.step, getattr(pre, "name", pre))))
                ok = True
        elif a in stages and b in (NOT_STARTED, first) and st.get("repeat_kill_chain", False) and (
                a == last or not st.get("repeat_kill_chain_stages", True)):
            ok = True  # ended (succeeded after the last stage, or failed with stage repetition off) and restarted within one step
        elif a in (SUCCEEDED, FAILED) and b in (NOT_STARTED, first):
            ok = bool(st.get("repeat_kill_chain", False))
            if not ok:
                v.append(violation("restart_only_when_repeat_kill_chain", sig, "step %d: kill chain restarted although repeat_kill_chain is false" % s.step))
                ok = True
        if not ok:
            v.append(violation("kill_chain_in_stage_order_without_skipping", sig, "step %d: kill-chain stage went from %s to %s" % (
                s.step, getattr(pre, "name", pre), getattr(post, "name", post))))
        # with repeat_kill_chain an ended chain (succeeded or failed) is started again at the agent's next execution step
        if b in (SUCCEEDED, FAILED) and st.get("repeat_kill_chain", False):
            s.ended_for = getattr(s, "ended_for", 0) + 1
            if s.ended_for > st.get("frequency", 5) + st.get("variance", 0) + 1:
                v.append(violation("restarts_when_repeat_kill_chain", "%s:stuck-in-%s" % (type(red).__name__, getattr(post, "name", post)),
                                   "step %d: the kill chain has been %s for %d steps although repeat_kill_chain is true (frequency %d, variance %d)" % (
                                       s.step, getattr(post, "name", post), s.ended_for, st.get("frequency", 5), st.get("variance", 0))))
        else:
            s.ended_for = 0
        # once concluded (no repeat) the agent does nothing
        if a in (SUCCEEDED, FAILED) and not st.get("repeat_kill_chain", False) and red.actions_concluded and h.action != "do-nothing" \
               :
            v.append(violation("stops_after_the_end", sig, "step %d: action %s after the kill chain ended" % (s.step, h.action)))
        # start nodes: every action the threat actor issues from a host is issued from one of its configured start nodes (the
        # c2-server-* actions address the configured command-and-control server, not a host the actor sits on)
        if h.action != "do-nothing" and not h.action.startswith("c2-server"):
            src = h.parameters.get("node_name", h.parameters.get("source_node"))
            allowed = list(st.get("starting_nodes") or []) or [st.get("default_starting_node")]
            if src is not None and src not in allowed:
                v.append(violation("acts_only_from_start_nodes", "%s:%s" % (type(red).__name__, h.action),
                                   "step %d: %s issued from %s, configured start nodes %s" % (s.step, h.action, src, allowed)))
        # timing: actions only at or after the start step (minus variance), consecutive actions at least frequency - variance apart
        if h.action != "do-nothing":
            lo = st.get("start_step", 5) - st.get("variance", 0)
            if h.timestep < lo:
                v.append(violation("first_action_within_start_window", type(red).__name__, "action %s at step %d before start %d" % (h.action, h.timestep, lo)))
            prev = [x.timestep for x in red.history[:-1] if x.action != "do-nothing"]
            if prev and h.timestep - prev[-1] < st.get("frequency", 5) - st.get("variance", 0):
                v.append(violation("gap_at_least_frequency_minus_variance", type(red).__name__, "actions at steps %d and %d, frequency %d variance %d" % (
                    prev[-1], h.timestep, st.get("frequency", 5), st.get("variance", 0))))
        return v


def _concluded(s):
    return True


def tap_plan(tier):
    P = []
    if tier == "thorough":
        for scen in ("uc7", "uc7_tap003"):
            P.append(("tap-%s-det" % scen, scen, dict(variance=0, probability=1), 64, 1))
            P.append(("tap-%s-second-pass" % scen, scen, dict(variance=0, probability=1, repeat_kill_chain=True, frequency=2), 60, 1))
            P.append(("tap-%s-var" % scen, scen, dict(variance=1, probability=0.5, repeat_kill_chain_stages=True), 60, 1))
            # two deviations (blue action and/or alternative RNG answers) inside the first 10 steps
            P.append(("tap-%s-var-k2" % scen, scen, dict(variance=1, probability=0.5, repeat_kill_chain_stages=True), 10, 2))
            P.append(("tap-%s-norepeat" % scen, scen, dict(variance=1, probability=0.5, repeat_kill_chain_stages=False, repeat_kill_chain=True), 60, 1))
    else:
        P.append(("tap-uc7-var", "uc7", dict(variance=1, probability=0.5), 28, 1))
        # a whole kill chain and the beginning of the next one (repeat_kill_chain), no deviations: the second pass starts
        # from the configured start node again
        P.append(("tap-uc7-second-pass", "uc7", dict(variance=0, probability=1, repeat_kill_chain=True, frequency=2,
                                                     starting_nodes=["ST_PROJ-A-PRV-PC-1"]), 50, 0))
        P.append(("tap-uc7_tap003-norepeat", "uc7_tap003", dict(variance=1, probability=0.5, repeat_kill_chain_stages=False, repeat_kill_chain=True), 24, 1))
        # a failed stage is repeated (the retry branch): the agent keeps to its schedule while it retries
        P.append(("tap-uc7_tap003-retry", "uc7_tap003", dict(variance=0, probability=1, repeat_kill_chain_stages=True), 24, 1))
    return P


def replay(doc):
    ad_name = doc.get("adapter", "")
    if ad_name == "c19-periodic":
        it = doc["params"]["item"]
        return check_periodic((it[0], tuple(tuple(x) if isinstance(x, list) else x for x in map(tuple, it[1])), tuple(it[2]) if it[2] else None, it[3]))[2]
    if ad_name == "c19-probabilistic":
        it = doc["params"]["item"]
        return check_probabilistic((tuple(it[0]), tuple(it[1])))[1]
    p = doc["params"]
    ad = TapAdapter(p["name"], p["scenario"], p["settings"])
    s = ad.build()
    out = []
    for ev in doc["history"]:
        ad.apply(s, tuple(ev))
    if doc.get("event") is not None:
        out += ad.apply(s, tuple(doc["event"]))[1]
    return out


def run(tier, is_known):
    from .. import envexplore as EE

    t0 = time.time()
    HE.import_env()
    viols = []
    # register TAP adapters first (single pool)
    taps = []
    for name, scen, settings, H, k in tap_plan(tier):
        ad = TapAdapter(name, scen, settings)
        ad.name = "c19-" + name
        engine._ADAPTERS[ad.name] = ad
        taps.append((ad, H, k))
    engine._FUNCS["c19-periodic"] = check_periodic
    engine._FUNCS["c19-probabilistic"] = check_probabilistic
    # A
    items = periodic_items(tier)
    n_exec = n_out = 0
    for item, (ne, no, v) in engine.pmap("c19-periodic", check_periodic, items, chunksize=1):
        n_exec += ne
        n_out += no
        for x in v:
            x.update(adapter="c19-periodic", params={"item": item}, history=[], event=None)
        viols += v
    # B
    pitems = probabilistic_items()
    p_evals = 0
    for item, (ne, v) in engine.pmap("c19-probabilistic", check_probabilistic, pitems, chunksize=4):
        p_evals += ne
        for x in v:
            x.update(adapter="c19-probabilistic", params={"item": item}, history=[], event=None)
        viols += v
    # C
    per = []
    t_exec = t_trans = 0
    samples = []
    stages_seen = set()
    for ad, H, k in taps:
        t1 = time.time()
        r = engine.deviations(ad, H, k)
        viols += r.violations
        t_exec += r.executions
        t_trans += r.transitions
        samples += r.samples[:1]
        per.append({"adapter": ad.name, "horizon": H, "k_completed": k, "executions": r.executions, "transitions": r.transitions,
                    "distinct_step_outcomes": len(r.outcomes), "wall_s": round(time.time() - t1, 1)})
    viols = EE.drop_foreign(viols)
    seen = {}
    for v in viols:
        seen.setdefault((v["clause"], v["signature"]), v)
    cov = {
        "states": n_exec + p_evals + t_trans, "transitions": n_exec * 10 + p_evals + t_trans,
        "traces_validated_against_impl": n_exec + p_evals + t_trans,
        "samples": samples + [{"periodic_setting": dict(items[0][1]), "kind": items[0][0]}],
        "exhaustive": True,
        "periodic": {"setting_combinations": len(items), "rng_tree_leaves_executed": n_exec, "distinct_action_schedules": n_out},
        "probabilistic": {"tables_x_key_orders": len(pitems), "sampler_answers_checked": p_evals},
        "threat_actors": per, "tap_executions": t_exec,
        "explanation": "every RNG draw of the scripted agents is answered by the harness; for periodic agents the complete choice tree "
                       "is enumerated for every setting combination; for threat actors all executions with <=k non-default answers/blue actions",
    }
    return {"violations": list(seen.values()), "coverage": cov, "level": "model_checking",
            "assumptions": ["numpy's sampler never returns an index of probability 0 (trusted base); the seam answers only indices with p > 0",
                            "max_executions is checked for periodic-agent only (red-database-corrupting-agent does not implement it and the statement does not name it)",
                            "threat actors: upper bounds on gaps are not checked (an execution step may legitimately yield do-nothing)"],
            "summary": "periodic leaves=%d schedules=%d | probabilistic answers=%d | tap executions=%d transitions=%d wall=%.0fs" % (
                n_exec, n_out, p_evals, t_exec, t_trans, time.time() - t0)}
