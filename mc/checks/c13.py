"""C13 — services and applications follow their lifecycle; only running software works.

Explicit-state BFS over a real host ``h`` and a real peer ``p`` on one switch (``harness_sim.lan``), one harness
instance for EVERY class found in ``Service._registry`` and ``Application._registry`` at run time (every module
under ``primaite.simulator.system`` is imported first, then ``primaite.game.game``).

Events (each one is one real call):
  ("req", i, verb)      a lifecycle / fix / scan request through ``Simulation.apply_request``
                        services: start stop pause resume restart disable enable fix scan
                        applications: execute close fix scan
  ("install", i) / ("uninstall", i)
                        ["network","node","h","software_manager","application","install"|"uninstall",name]
  ("api_install", i) / ("api_uninstall", i)
                        ``SoftwareManager.install/uninstall`` (the only way services are (un)installed: what
                        ``PrimaiteGame.from_config`` calls); offered for services the harness installed itself
  ("tick",)             apply_timestep(t); t += 1; pre_timestep(t)
  ("shutdown",) / ("startup",)   node power requests
  ("payload", i)        the peer's NIC puts a real frame on the wire, addressed to the host's MAC/IP and to the port and
                        protocol the software is reached on, carrying a payload the software understands

Oracle:
  * a lock-step reference state machine per software item, written from docs/source/action_masking.rst (source states
    of every request), simulation_components/system/software.rst (power off stops, power on starts, install runs a
    service) and the state enumerations: request accepted (status ``success`` + documented target state) exactly in its
    documented source states while the node is ON; everywhere else not ``success`` and no change of operating state;
    restart finishes on tick ``restart_duration + 1``, install on tick ``install_duration`` (ticks count while the node
    is ON); nothing else moves the operating state;
  * software that is not RUNNING (or not installed): its port is not in ``get_open_ports()`` unless another running
    software item owns/listens on that port number, and no ``receive`` call on any instance of it returns true, changes
    the instance or emits a frame from the host (monitor wrapped around ``receive`` and the host NIC's ``send_frame``);
  * after every event the registries agree: ``software_manager.software``, ``node.services``/``node.applications``
    (same objects, no duplicates), the request routes under "service"/"application" (route -> the installed instance),
    ``describe_state()["services"/"applications"]`` (keys and reported operating state) and
    ``port_protocol_mapping`` (every value is an installed item under its own key; the item is reachable under its key
    when nothing else claims the key);
  * pair harnesses (two shipped items that share (port, protocol)): the set of open ports equals the ports of the
    running installed software.

Harness variants (adapter parameters, all written into replay files):
  rd        restart_duration given to the service (0, 1, 2)
  power     (start_up_duration, shut_down_duration) of the host: (0,0) instantaneous, (1,1) timed
  listener  another pre-installed, running service is configured with the documented option ``listen_on_ports`` =
            {the port of the software under check}: the host's open-port filter then lets frames through although the
            software under check is not running, so its own ``receive`` is what has to refuse them
  init      applications that are not pre-installed start "absent" (installed through the request) or "running"
            (installed and run through the Python API, as PrimaiteGame.from_config does)
  api       offer the SoftwareManager.install/uninstall events in single-service harnesses
  two suts  pair harness, see above

Local machinery (not in engine.py): every adapter is registered in ``engine._ADAPTERS`` before the pool forks and the
independent ``engine.bfs`` calls are issued from threads, so that the level barrier of one harness does not idle the
shared worker pool; per-harness results are unchanged.
"""
from __future__ import annotations

import datetime as _dt
import enum
import importlib
import ipaddress
import pkgutil
import re
import time

from .. import common, engine
from ..engine import violation

common.import_sim()

from .. import harness_sim as hs  # noqa: E402
from primaite.simulator.core import SimComponent  # noqa: E402
from primaite.simulator.network.protocols.icmp import ICMPPacket  # noqa: E402
from primaite.simulator.network.transmission.data_link_layer import EthernetHeader, Frame  # noqa: E402
from primaite.simulator.network.transmission.network_layer import IPPacket  # noqa: E402
from primaite.simulator.network.transmission.transport_layer import TCPHeader, UDPHeader  # noqa: E402
from primaite.simulator.system.applications.application import Application  # noqa: E402
from primaite.simulator.system.services.service import Service  # noqa: E402

PROP = "C13"
HOST, PEER = "h", "p"
HOST_IP, PEER_IP = "10.0.0.2", "10.0.0.3"

# ----------------------------------------------------------------------------------------------------------------
# documented transition tables (docs/source/action_masking.rst: "Node is on. Service is running." ...)
# verb -> (documented source states, target state or None = no change of operating state, success required in source)
# ----------------------------------------------------------------------------------------------------------------
SVC_STATES = ("RUNNING", "STOPPED", "PAUSED", "DISABLED", "RESTARTING", "INSTALLING")
SVC_TABLE = {
    "start": (("STOPPED",), "RUNNING", True),
    "stop": (("RUNNING",), "STOPPED", True),
    "pause": (("RUNNING",), "PAUSED", True),
    "resume": (("PAUSED",), "RUNNING", True),
    "restart": (("RUNNING",), "RESTARTING", True),
    "disable": (SVC_STATES, "DISABLED", True),
    "enable": (("DISABLED",), "STOPPED", True),
    "scan": (("RUNNING",), None, True),
    # fix: documented source state RUNNING; whether it answers success additionally depends on the health state (C14)
    "fix": (("RUNNING",), None, False),
}
APP_TABLE = {
    "close": (("RUNNING",), "CLOSED", True),
    "scan": (("RUNNING",), None, True),
    "fix": (("RUNNING",), None, False),
}
SVC_VERBS = ["start", "stop", "pause", "resume", "restart", "disable", "enable", "fix", "scan"]
APP_VERBS = ["execute", "close", "fix", "scan"]


# ----------------------------------------------------------------------------------------------------------------
# catalogue of shipped software (run-time enumeration of the registries)
# ----------------------------------------------------------------------------------------------------------------
_CATALOG = None


def _import_everything():
    import primaite.simulator.system as pss

    failed = []
    for m in pkgutil.walk_packages(pss.__path__, pss.__name__ + "."):
        try:
            importlib.import_module(m.name)
        except Exception as e:  # noqa - a dead module is not a registry entry
            failed.append("%s: %s" % (m.name, type(e).__name__))
    try:
        importlib.import_module("primaite.game.game")
    except Exception as e:  # noqa
        failed.append("primaite.game.game: %s" % type(e).__name__)
    return failed


def _mk_host_pair(power=(0, 0)):
    cfg = {"start_up_duration": power[0], "shut_down_duration": power[1]}
    s = hs.lan([("computer", HOST, HOST_IP, cfg), ("computer", PEER, PEER_IP)])
    s.host = s.nodes[HOST]
    s.peer = s.nodes[PEER]
    if s.host.operating_state.name != "ON":
        raise engine.HarnessError("host is not ON after construction")
    # a node is ON from construction; with a zero start_up_duration harness_sim.host()'s power_on() re-runs the start-up
    # actions (pre-installed applications RUNNING), with a positive one it does nothing (they stay CLOSED).  Open them,
    # as PrimaiteGame.from_config does for configured applications, so that every power variant starts from the same state.
    for a in s.host.applications.values():
        if a.operating_state.name == "CLOSED":
            a.run()
    return s


def catalog():
    """{name: dict(kind, cls, system, port, protocol, listen, target)} for every registry class that can be installed
    alone on a Computer, plus the list of skipped classes with the reason."""
    global _CATALOG
    if _CATALOG is not None:
        return _CATALOG
    failed_imports = _import_everything()
    s = _mk_host_pair()
    h = s.host
    system = set(h.software_manager.software)
    items, skipped = {}, []
    for kind, reg in (("service", Service._registry), ("application", Application._registry)):
        for name in sorted(reg):
            cls = reg[name]
            try:
                if name not in h.software_manager.software:
                    h.software_manager.install(cls)
                sw = h.software_manager.software.get(name)
                if sw is None:
                    raise RuntimeError("installed under another name than its registry key")
                if not isinstance(sw, cls):
                    raise RuntimeError("pre-installed item %s is not an instance of the registry class" % type(sw).__name__)
            except Exception as e:  # noqa
                skipped.append({"name": name, "kind": kind, "reason": "%s: %s" % (type(e).__name__, str(e)[:120])})
                continue
            listen = sorted(int(p) for p in (sw.listen_on_ports or ()))
            port, proto = int(sw.port), str(sw.protocol)
            # where a frame for this software is addressed
            if name == "nmap":
                target = (80, "tcp")  # PortScanPayloads are addressed to the scanned port; 80 (web-browser) is open
            elif port != 0:
                target = (port, proto if proto in ("tcp", "udp", "icmp") else "tcp")
            elif proto == "icmp":
                target = (0, "icmp")
            elif listen:
                target = (80 if 80 in listen else listen[0], "tcp")
            else:
                target = (0, "tcp")
            items[name] = {"kind": kind, "cls": cls, "system": name in system, "port": port, "protocol": proto,
                           "listen": listen, "target": target,
                           "addressable": not (port == 0 and proto == "none" and not listen and name != "nmap")}
    _CATALOG = {"items": items, "skipped": skipped, "failed_imports": failed_imports}
    return _CATALOG


# ----------------------------------------------------------------------------------------------------------------
# requests, formed the way agent actions form them
# ----------------------------------------------------------------------------------------------------------------
_ACTION_FALLBACKS = set()


def form_request(kind, name, verb):
    """The request list for one lifecycle action: produced by the registered action class (node-service-stop, ...,
    node-application-install/remove); the raw documented path is used if no such action class exists."""
    if verb in ("install", "uninstall"):
        raw = ["network", "node", HOST, "software_manager", "application", verb, name]
        act = "node-application-" + ("install" if verb == "install" else "remove")
    else:
        raw = ["network", "node", HOST, kind, name, verb]
        act = "node-%s-%s" % (kind, verb)
    try:
        from primaite.game.agent.actions.abstract import AbstractAction

        cls = AbstractAction._registry[act]
        key = "service_name" if kind == "service" and verb not in ("install", "uninstall") else "application_name"
        req = list(cls.form_request(cls.ConfigSchema(**{"type": act, "node_name": HOST, key: name})))
    except Exception:  # noqa - no such action class / other schema: the documented request path
        _ACTION_FALLBACKS.add(act)
        return raw
    if req != raw:
        raise engine.HarnessError("action %s forms %r, documented request is %r" % (act, req, raw))
    return req


# ----------------------------------------------------------------------------------------------------------------
# payloads the software understands
# ----------------------------------------------------------------------------------------------------------------
def make_payload(name, target):
    from primaite.simulator.network.protocols.arp import ARPPacket
    from primaite.simulator.network.protocols.dns import DNSPacket, DNSReply, DNSRequest
    from primaite.simulator.network.protocols.ftp import FTPCommand, FTPPacket, FTPStatusCode
    from primaite.simulator.network.protocols.http import HttpRequestMethod, HttpRequestPacket, HttpResponsePacket, HttpStatusCode
    from primaite.simulator.network.protocols.ntp import NTPPacket, NTPReply
    from primaite.simulator.network.protocols.ssh import SSHConnectionMessage, SSHPacket, SSHTransportMessage, SSHUserCredentials

    if name == "web-server":
        return HttpRequestPacket(request_method=HttpRequestMethod.GET, request_url="http://%s/" % HOST_IP)
    if name == "web-browser":
        return HttpResponsePacket(status_code=HttpStatusCode.OK)
    if name == "dns-server":
        return DNSPacket(dns_request=DNSRequest(domain_name_request="example.com"))
    if name == "dns-client":
        return DNSPacket(dns_request=DNSRequest(domain_name_request="example.com"),
                         dns_reply=DNSReply(domain_name_ip_address=ipaddress.IPv4Address("10.9.9.9")))
    if name == "ntp-server":
        return NTPPacket()
    if name == "ntp-client":
        return NTPPacket(ntp_reply=NTPReply(ntp_datetime=_dt.datetime(2030, 1, 2, 3, 4, 5)))
    if name == "ftp-server":
        return FTPPacket(ftp_command=FTPCommand.PORT, ftp_command_args=21)
    if name == "ftp-client":
        return FTPPacket(ftp_command=FTPCommand.PORT, ftp_command_args=21, status_code=FTPStatusCode.OK)
    if name == "database-service":
        return {"type": "connect_request", "password": None, "connection_request_id": "c13-request"}
    if name in ("database-client", "dos-bot"):
        return {"type": "sql", "uuid": "c13-query", "status_code": 200, "data": {}}
    if name == "terminal":
        return SSHPacket(transport_message=SSHTransportMessage.SSH_MSG_USERAUTH_REQUEST,
                         connection_message=SSHConnectionMessage.SSH_MSG_CHANNEL_OPEN,
                         user_account=SSHUserCredentials(username="admin", password="admin"),
                         connection_request_uuid="c13-request")
    if name == "arp":
        return ARPPacket(request=True, sender_mac_addr="@PEER_MAC", sender_ip_address=ipaddress.IPv4Address(PEER_IP),
                         target_ip_address=ipaddress.IPv4Address(HOST_IP))
    if name == "nmap":
        from primaite.simulator.system.applications.nmap import PortScanPayload

        return PortScanPayload(ip_address=HOST_IP, port=target[0], protocol=target[1], request=True)
    if name in ("c2-beacon", "c2-server"):
        from primaite.simulator.network.protocols.masquerade import C2Packet
        from primaite.simulator.system.applications.red_applications.c2.abstract_c2 import C2Payload

        # a keep-alive carrying a non-default frequency: resolving it re-configures the receiver (observable)
        return C2Packet(masquerade_protocol="tcp", masquerade_port=80, keep_alive_frequency=7,
                        payload_type=C2Payload.KEEP_ALIVE, command=None, payload={})
    return {"type": "c13-probe"}


def make_frame(s, name, target):
    port, proto = target
    peer_nic = s.peer.network_interface[1]
    host_nic = s.host.network_interface[1]
    payload = make_payload(name, target)
    if name == "arp":
        payload.sender_mac_addr = peer_nic.mac_address
    kw = dict(
        ethernet=EthernetHeader(src_mac_addr=peer_nic.mac_address, dst_mac_addr=host_nic.mac_address),
        ip=IPPacket(src_ip_address=PEER_IP, dst_ip_address=HOST_IP, protocol=proto),
        payload=payload,
    )
    if proto == "tcp":
        kw["tcp"] = TCPHeader(src_port=port, dst_port=port)
    elif proto == "udp":
        kw["udp"] = UDPHeader(src_port=port, dst_port=port)
    else:
        kw["icmp"] = ICMPPacket(identifier=7, sequence=0)
        kw["payload"] = "c13-echo-payload-0123456"
    return Frame(**kw)


# ----------------------------------------------------------------------------------------------------------------
# deep canonical form of one software instance (all fields, opaque ids and clocks normalised)
# ----------------------------------------------------------------------------------------------------------------
_UUID = re.compile(r"^[0-9a-f]{8}-[0-9a-f]{4}-[0-9a-f]{4}-[0-9a-f]{4}-[0-9a-f]{12}$")
_MAC = re.compile(r"^[0-9a-f]{2}(:[0-9a-f]{2}){5}$")
_SKIP = {"software_manager", "sys_log", "file_system", "parent", "folder", "uuid", "_request_manager", "receive",
         "_original_state"}


# fields that only mark "touched this step" (FTPServiceABC._active is set before the running check and is read by nothing
# but describe_state of a RUNNING service): not counted as "the instance changed" by the payload monitor
_MARKERS = ("_active",)


def deep(x, depth=0, root=False, skip=()):
    if x is None or isinstance(x, (bool, int, float)):
        return x
    if isinstance(x, str):
        return "#uuid" if _UUID.match(x) else ("#mac" if _MAC.match(x) else x)
    if isinstance(x, enum.Enum):
        return "%s.%s" % (type(x).__name__, x.name)
    if isinstance(x, (_dt.datetime, _dt.date, _dt.timedelta)):
        return "#time"
    if isinstance(x, (ipaddress.IPv4Address, ipaddress.IPv4Network)):
        return str(x)
    if depth > 5:
        return "#deep:" + type(x).__name__
    if isinstance(x, dict):
        out = [(repr(deep(k, depth + 1)), repr(deep(v, depth + 1))) for k, v in x.items()]
        return tuple(sorted(out))
    if isinstance(x, (list, tuple)):
        return tuple(deep(v, depth + 1) for v in x)
    if isinstance(x, (set, frozenset)):
        return tuple(sorted(repr(deep(v, depth + 1)) for v in x))
    if isinstance(x, SimComponent) and not root:
        return "#component:%s:%s" % (type(x).__name__, getattr(x, "name", ""))
    d = getattr(x, "__dict__", None)
    if isinstance(d, dict) and hasattr(x, "__pydantic_fields_set__"):
        items = list(d.items())
        priv = getattr(x, "__pydantic_private__", None) or {}
        items += list(priv.items())
        out = []
        for k, v in items:
            if k in _SKIP or k in skip or callable(v):
                continue
            out.append((k, deep(v, depth + 1)))
        return (type(x).__name__, tuple(sorted(out, key=lambda kv: kv[0])))
    return "#obj:" + type(x).__name__


# ----------------------------------------------------------------------------------------------------------------
# the adapter
# ----------------------------------------------------------------------------------------------------------------
class Ref:
    """Reference lifecycle of one software item (documented behaviour)."""

    def __init__(self, kind):
        self.kind = kind
        self.op = "ABSENT"
        self.elapsed = 0  # counted ticks since the accepted restart / install
        self.duration = None  # configured duration of the running timed transition

    def tup(self):
        timed = self.op in ("RESTARTING", "INSTALLING")
        return (self.op, self.elapsed if timed else None, self.duration if timed else None)


class LifecycleAdapter(engine.Adapter):
    def __init__(self, suts, rd=1, power=(0, 0), listener=False, init="default", api=True, prefix=()):
        cat = catalog()["items"]
        self.prefix = [tuple(e) for e in prefix]  # events applied by build(): the search starts from a non-initial state
        self.suts = [str(n) for n in suts]
        for n in self.suts:
            if n not in cat:
                raise engine.HarnessError("unknown or uninstallable software %r" % n)
        self.cat = [cat[n] for n in self.suts]
        self.rd = int(rd)
        self.power = (int(power[0]), int(power[1]))
        self.listener = bool(listener)
        self.init = init  # applications that are not pre-installed: "absent" | "running"; "default" = absent
        self.pair = len(self.suts) == 2
        self.api = bool(api)  # offer SoftwareManager.install/uninstall events for services the harness installed
        self.name = "c13-%s-rd%d-pw%d%d%s%s" % ("+".join(self.suts), self.rd, self.power[0], self.power[1],
                                                "-listener" if self.listener else "",
                                                "-" + self.init if self.init != "default" else "") + ("" if self.api else "-noapi") + (
                                                    "-p%d" % len(self.prefix) if self.prefix else "")
        self._menu = self._make_menu()

    def params(self):
        return {"suts": self.suts, "rd": self.rd, "power": list(self.power), "listener": self.listener, "init": self.init,
                "api": self.api, "prefix": [list(e) for e in self.prefix]}

    # ------------------------------------------------------------------ menu
    def _make_menu(self):
        m = [("tick",)]
        for i, c in enumerate(self.cat):
            if c["kind"] == "service":
                verbs = SVC_VERBS if not self.pair else ["stop", "start"]
                m += [("req", i, v) for v in verbs]
                if not c["system"] and self.api:
                    m += [("api_uninstall", i), ("api_install", i)]
            else:
                verbs = APP_VERBS if not self.pair else ["close", "execute"]
                m += [("req", i, v) for v in verbs]
                m += [("install", i), ("uninstall", i)]
            m.append(("payload", i))
        if not self.pair:
            m += [("shutdown",), ("startup",)]
        return m

    def menu(self, s):
        return self._menu

    def label(self, ev):
        if ev[0] == "req":
            return "%s:%s" % (self.cat[ev[1]]["kind"], ev[2])
        return str(ev[0])

    # ------------------------------------------------------------------ build
    def build(self):
        s = _mk_host_pair(self.power)
        h = s.host
        sm = h.software_manager
        s.refs = []
        s.calls = []  # (sut index, returned truthy, frames sent by the host during the call, instance changed, raised)
        s.sent = 0
        s.wrapped = {}
        s.instances = [[] for _ in self.suts]
        s.exceptions = 0
        for i, (name, c) in enumerate(zip(self.suts, self.cat)):
            ref = Ref(c["kind"])
            if name not in sm.software:
                if c["kind"] == "service":
                    sm.install(c["cls"])
                elif self.init == "running":
                    sm.install(c["cls"])
                    sm.software[name].run()
            sw = sm.software.get(name)
            if sw is not None:
                if c["kind"] == "service":
                    sw.restart_duration = self.rd
                ref.op = sw.operating_state.name
            s.refs.append(ref)
        if self.listener:
            tgt = self.cat[0]["target"][0]
            by = self._bystander()
            sm.software[by].listen_on_ports = {tgt}
        nic = h.network_interface[1]
        orig_send = nic.send_frame

        def send_frame(frame, _orig=orig_send):
            s.sent += 1
            return _orig(frame)

        object.__setattr__(nic, "send_frame", send_frame)
        s.start()
        self._instrument(s)
        for ev in self.prefix:
            self.apply(s, ev)
        return s

    def _bystander(self):
        return "dns-client" if self.suts[0] in ("ntp-client", "ntp-server") else "ntp-client"

    def _instrument(self, s):
        """Wrap ``receive`` of every instance of the software under test that is installed or still referenced."""
        sm = s.host.software_manager
        for i, name in enumerate(self.suts):
            cands = []
            if name in sm.software:
                cands.append(sm.software[name])
            cands += [v for v in sm.port_protocol_mapping.values() if getattr(v, "name", None) == name]
            cands += [v for v in list(s.host.services.values()) + list(s.host.applications.values()) if v.name == name]
            for sw in cands:
                if id(sw) in s.wrapped:
                    continue
                s.wrapped[id(sw)] = sw
                s.instances[i].append(sw)
                self._wrap(s, i, sw)

    @staticmethod
    def _wrap(s, i, sw):
        orig = sw.receive

        def receive(*a, **k):
            before_sent = s.sent
            before = deep(sw, root=True, skip=_MARKERS)
            ret, raised = None, False
            try:
                ret = orig(*a, **k)
                return ret
            except BaseException:
                raised = True
                raise
            finally:
                s.calls.append((i, bool(ret), s.sent - before_sent, deep(sw, root=True, skip=_MARKERS) != before, raised))

        object.__setattr__(sw, "receive", receive)

    # ------------------------------------------------------------------ observation helpers
    def _sw(self, s, i):
        return s.host.software_manager.software.get(self.suts[i])

    def _op(self, s, i):
        sw = self._sw(s, i)
        return sw.operating_state.name if sw is not None else "ABSENT"

    @staticmethod
    def _node(s):
        return s.host.operating_state.name

    # ------------------------------------------------------------------ apply
    def apply(self, s, ev):
        ev = tuple(ev)
        k = ev[0]
        h = s.host
        viols = []
        node_before = self._node(s)
        ops_before = [self._op(s, i) for i in range(len(self.suts))]
        status = None
        raised = None
        calls_from = len(s.calls)
        try:
            if k == "tick":
                s.tick()
            elif k == "req":
                status = s.req(form_request(self.cat[ev[1]]["kind"], self.suts[ev[1]], ev[2])).status
            elif k in ("install", "uninstall"):
                status = s.req(form_request("application", self.suts[ev[1]], k)).status
            elif k == "api_install":
                h.software_manager.install(self.cat[ev[1]]["cls"])
                sw = self._sw(s, ev[1])
                if sw is not None and hasattr(sw, "restart_duration"):
                    sw.restart_duration = self.rd  # harness configuration, as game.py applies its defaults
            elif k == "api_uninstall":
                h.software_manager.uninstall(self.suts[ev[1]])
            elif k in ("shutdown", "startup"):
                status = s.node_req(HOST, [k]).status
            elif k == "payload":
                frame = make_frame(s, self.suts[ev[1]], self.cat[ev[1]]["target"])
                s.peer.network_interface[1].send_frame(frame)
            else:
                raise ValueError(ev)
        except Exception as e:  # noqa - C13 does not say "never raises": recorded, judged only by its effects
            raised = type(e).__name__
            s.exceptions += 1
        self._instrument(s)
        node_after = self._node(s)
        calls = s.calls[calls_from:]
        outcome = [status, raised, node_after, [self._op(s, i) for i in range(len(self.suts))]]
        # ---- lifecycle conformance
        for i in range(len(self.suts)):
            viols += self._conform(s, i, ev, status, node_before, node_after, ops_before[i], raised)
        # ---- payloads
        if k == "payload":
            out, v = self._judge_payload(s, ev, calls, ops_before, node_before)
            outcome.append(out)
            viols += v
        # (receive calls during other events, e.g. replies to traffic the software itself started, are not judged)
        # ---- state invariants
        viols += self._ports(s, self.label(ev))
        viols += self._registries(s, self.label(ev))
        return outcome, _dedup(viols)

    # ------------------------------------------------------------------ reference model, stepped in lock-step
    def _conform(self, s, i, ev, status, node_before, node_after, op_before, raised=None):
        name, kind = self.suts[i], self.cat[i]["kind"]
        ref = s.refs[i]
        k = ev[0]
        mine = len(ev) > 1 and ev[1] == i
        on = node_before == "ON"
        v = []
        op_after = self._op(s, i)
        want = ref.op  # default: nothing moves the operating state
        want_set = None
        clause = "state_changes_only_on_documented_transitions"
        sig = "%s:%s:%s:from=%s" % (kind, name, self.label(ev), ref.op)
        if k == "req" and mine:
            verb = ev[2]
            table = SVC_TABLE if kind == "service" else APP_TABLE
            if verb == "execute":
                # documented precondition: node is on.  run (CLOSED -> RUNNING) is the only documented move it may make
                if on and ref.op == "CLOSED":
                    want_set = ("CLOSED", "RUNNING")
                elif not on or ref.op == "ABSENT":
                    if status == "success":
                        v.append(violation("request_refused_outside_documented_source_states",
                                           "%s:node=%s:status=success" % (sig, node_before),
                                           "%s execute answered success with node %s, software %s" % (name, node_before, ref.op)))
            else:
                sources, target, need_success = table[verb]
                accepted = on and ref.op in sources
                if accepted:
                    clause = "request_accepted_in_documented_source_states"
                    want = target or ref.op
                    refused = status != "success" if need_success else status not in ("success", "failure")
                    if refused or op_after != want:
                        v.append(violation(clause, "%s:node=ON:status=%s:got=%s" % (sig, status, op_after),
                                           "%s %s from %s with the node ON is documented as possible (-> %s): answered %r, state now %s" % (
                                               name, verb, ref.op, want, status, op_after)))
                        want_set = (op_after,)  # reported once
                else:
                    clause = "request_refused_outside_documented_source_states"
                    if status == "success":
                        v.append(violation(clause, "%s:node=%s:status=success:got=%s" % (sig, node_before, op_after),
                                           "%s %s from %s (node %s) is outside the documented source states %s: answered success, state now %s" % (
                                               name, verb, ref.op, node_before, list(sources), op_after)))
                        want_set = (op_after,)
                if accepted and verb == "restart":
                    ref.elapsed, ref.duration = 0, self.rd
        elif k == "install" and mine:
            if on and ref.op == "ABSENT":
                clause = "request_accepted_in_documented_source_states"
                want = "INSTALLING"
                sw = self._sw(s, i)
                ref.elapsed, ref.duration = 0, (int(sw.install_duration) if sw is not None else None)
                if status != "success":
                    v.append(violation(clause, "%s:node=ON:status=%s" % (sig, status),
                                       "install of %s on a node that is ON answered %r" % (name, status)))
            elif not on:
                clause = "request_refused_outside_documented_source_states"
                if status == "success":
                    v.append(violation(clause, "%s:node=%s:status=success" % (sig, node_before),
                                       "install of %s answered success with the node %s" % (name, node_before)))
        elif k == "uninstall" and mine:
            if on and ref.op != "ABSENT":
                clause = "request_accepted_in_documented_source_states"
                want = "ABSENT"
                if status != "success":
                    v.append(violation(clause, "%s:node=ON:status=%s" % (sig, status),
                                       "uninstall of installed %s on a node that is ON answered %r" % (name, status)))
            elif not on:
                clause = "request_refused_outside_documented_source_states"
                if status == "success":
                    v.append(violation(clause, "%s:node=%s:status=success" % (sig, node_before),
                                       "uninstall of %s answered success with the node %s" % (name, node_before)))
        elif k == "api_install" and mine:
            if ref.op == "ABSENT":
                # software.rst: "service is immediately ran after install" (a node that is not ON runs nothing)
                want = ("RUNNING" if node_before == "ON" else "STOPPED") if kind == "service" else "CLOSED"
                clause = "install_leaves_documented_state"
                if raised:
                    # SoftwareManager.install raised (C13 does not say it never does): nothing may be half-installed,
                    # which the registry invariants check; the item is then either absent or in the documented state
                    want_set = (want, "ABSENT")
            else:
                want_set = SVC_STATES + ("CLOSED",)  # installing twice: judged by the registry invariants only
        elif k == "api_uninstall" and mine:
            want = "ABSENT"
        elif k == "tick":
            counted = node_after == "ON"
            if node_before != "ON" and node_after == "ON":
                want = self._power_on(ref)
                ref.op = want
            elif node_before != "OFF" and node_after == "OFF":
                want = self._power_off(ref)
                ref.op = want
            if counted and ref.op in ("RESTARTING", "INSTALLING") and ref.duration is not None:
                clause = "timed_transition_completes_after_configured_ticks"
                ref.elapsed += 1
                done_at = ref.duration + 1 if ref.op == "RESTARTING" else max(ref.duration, 1)
                due = ref.elapsed >= done_at
                sig = "%s:%s:%s:%s" % (kind, name, ref.op, "due-tick" if due else "before-due-tick")
                want = "RUNNING" if due else ref.op
        elif k in ("shutdown", "startup"):
            clause = "power_event_moves_software_as_documented"
            if node_before != "OFF" and node_after == "OFF":
                want = self._power_off(ref)
            elif node_before != "ON" and node_after == "ON":
                want = self._power_on(ref)
        ok = (op_after in want_set) if want_set is not None else (op_after == want)
        if not ok:
            timing = ""
            if clause.startswith("timed"):
                timing = " (counted tick %d of a transition configured to take %d)" % (ref.elapsed, ref.duration)
            v.append(violation(clause, "%s:got=%s" % (sig, op_after),
                               "%s %s: event %s with node %s->%s, reference state %s -> expected %s, observed %s -> %s%s" % (
                                   kind, name, list(ev), node_before, node_after, ref.op,
                                   list(want_set) if want_set is not None else want, op_before, op_after, timing)))
        ref.op = op_after  # re-synchronise (the transition below a violation is not explored)
        return v

    @staticmethod
    def _power_off(ref):
        # software.rst: "service stops when node is powered off"; applications are closed; a paused service is not
        # running any more either (convention of the code, documentation silent)
        if ref.kind == "service":
            return "STOPPED" if ref.op in ("RUNNING", "PAUSED") else ref.op
        return "CLOSED" if ref.op == "RUNNING" else ref.op

    @staticmethod
    def _power_on(ref):
        # software.rst: "service turned back on when node is powered on"
        if ref.kind == "service":
            return "RUNNING" if ref.op == "STOPPED" else ref.op
        return "RUNNING" if ref.op == "CLOSED" else ref.op

    # ------------------------------------------------------------------ payload oracle
    def _judge_payload(self, s, ev, calls, ops_before, node_before):
        v = []
        out = []
        for i, name in enumerate(self.suts):
            mine = [c for c in calls if c[0] == i]
            handled = any(c[1] or c[2] or c[3] for c in mine)
            running = ops_before[i] == "RUNNING"
            out.append([name, ops_before[i], len(mine), handled])
            if handled and not running:
                how = []
                if any(c[1] for c in mine):
                    how.append("receive returned true")
                if any(c[2] for c in mine):
                    how.append("the host sent %d frame(s) from inside receive" % sum(c[2] for c in mine))
                if any(c[3] for c in mine):
                    how.append("the instance changed")
                v.append(violation("not_running_software_handles_no_payload",
                                   "%s:%s:receive-while-not-running" % (self.cat[i]["kind"], name),
                                   "%s was %s (node %s) when a frame for %s/%s arrived from the peer: %s" % (
                                       name, ops_before[i], node_before, self.cat[ev[1]]["target"][0],
                                       self.cat[ev[1]]["target"][1], "; ".join(how))))
        return out, v

    # ------------------------------------------------------------------ open ports
    def _running_ports(self, s, exclude=None):
        ports = {}
        for n, sw in s.host.software_manager.software.items():
            if sw is exclude:
                continue
            if sw.operating_state.name == "RUNNING":
                for p in [int(sw.port)] + [int(x) for x in (sw.listen_on_ports or ())]:
                    ports.setdefault(p, []).append(n)
        return ports

    def _ports(self, s, lab):
        v = []
        sm = s.host.software_manager
        open_ports = set(int(p) for p in sm.get_open_ports())
        for i, name in enumerate(self.suts):
            c = self.cat[i]
            sw = self._sw(s, i)
            own = {c["port"]} | set(c["listen"])
            if sw is not None:
                own = {int(sw.port)} | set(int(x) for x in (sw.listen_on_ports or ()))
            running = sw is not None and sw.operating_state.name == "RUNNING"
            others = self._running_ports(s, exclude=sw)
            if not running:
                bad = sorted(p for p in own if p in open_ports and p not in others)
                if bad:
                    v.append(violation("not_running_software_keeps_no_port_open",
                                       "%s:%s:%s" % (c["kind"], name, "ABSENT" if sw is None else "installed-not-running"),
                                       "%s is %s but port(s) %s are open and no other running software owns them (open: %s)" % (
                                           name, self._op(s, i), bad, sorted(open_ports))))
            elif not self.pair:
                # alone on its key: running software is reachable on its port
                key = (sw.port, sw.protocol)
                rivals = [n for n, o in sm.software.items() if o is not sw and (o.port, o.protocol) == key]
                if not rivals and int(sw.port) != 0 and int(sw.port) not in open_ports:
                    v.append(violation("open_ports_agree_with_running_software", "%s:%s:running-port-closed" % (c["kind"], name),
                                       "%s is RUNNING on %s but %s is not in get_open_ports() %s" % (
                                           name, key, sw.port, sorted(open_ports))))
        if self.pair:
            want = self._running_ports(s)
            ghost = sorted(p for p in open_ports if p not in want)
            if ghost:
                v.append(violation("open_ports_agree_with_running_software", "open-port-without-running-software",
                                   "ports %s are open, running software owns only %s" % (ghost, sorted(want))))
            missing = sorted(p for p in want if p != 0 and p not in open_ports)
            if missing:
                p0 = missing[0]
                owners = want[p0]
                holder = [x.name for kk, x in sm.port_protocol_mapping.items() if int(kk[0]) == p0]
                shape = "key-held-by-non-running-cotenant" if holder else "key-dropped-with-cotenant"
                v.append(violation("open_ports_agree_with_running_software", "running-software-port-closed:%s" % shape,
                                   "%s RUNNING on port %s, but the port is not open: port_protocol_mapping entry for it is %s (after %s)" % (
                                       owners, p0, holder or "missing", lab)))
        return v

    # ------------------------------------------------------------------ registries
    def _registries(self, s, lab):
        v = []
        h = s.host
        sm = h.software_manager
        ev_kind = lab if lab in ("install", "uninstall", "api_install", "api_uninstall", "initial") else "other"

        def bad(pair, detail):
            v.append(violation("registries_agree", "%s:%s" % (ev_kind, pair), "after %s: %s" % (lab, detail)))

        ds = h.describe_state()
        for kind, base, node_dict, rm in (("services", Service, h.services, h._service_request_manager),
                                          ("applications", Application, h.applications, h._application_request_manager)):
            exp = sorted(n for n, x in sm.software.items() if isinstance(x, base))
            got = sorted(x.name for x in node_dict.values())
            if got != exp:
                bad("node.%s-vs-software_manager.software" % kind, "node.%s holds %s, software_manager.software holds %s" % (kind, got, exp))
            else:
                for x in node_dict.values():
                    if sm.software.get(x.name) is not x:
                        bad("node.%s-vs-software_manager.software" % kind, "node.%s[%s] is a different object than software[%s]" % (kind, x.name, x.name))
            routes = sorted(str(r) for r in rm.request_types)
            if routes != exp:
                bad("request-routes-vs-software_manager.software", "routes under %r are %s, installed %s" % (kind[:-1], routes, exp))
            else:
                for n in exp:
                    if rm.request_types[n].func is not sm.software[n]._request_manager:
                        bad("request-routes-vs-software_manager.software", "route %s/%s does not lead to the installed instance" % (kind[:-1], n))
            rep = sorted(ds[kind])
            if rep != exp:
                bad("describe_state-vs-software_manager.software", "describe_state()[%r] lists %s, installed %s" % (kind, rep, exp))
        for key, x in sm.port_protocol_mapping.items():
            if sm.software.get(getattr(x, "name", None)) is not x:
                bad("port_protocol_mapping-vs-software_manager.software", "port_protocol_mapping[%s] -> %s which is not installed" % (
                    (int(key[0]), key[1]), getattr(x, "name", x)))
            elif (x.port, x.protocol) != key:
                bad("port_protocol_mapping-vs-software_manager.software", "port_protocol_mapping[%s] -> %s whose key is %s" % (
                    key, x.name, (x.port, x.protocol)))
        for i, name in enumerate(self.suts):
            sw = self._sw(s, i)
            if sw is None or self.pair:
                continue
            key = (sw.port, sw.protocol)
            rivals = [n for n, o in sm.software.items() if o is not sw and (o.port, o.protocol) == key]
            if not rivals and sm.port_protocol_mapping.get(key) is not sw:
                bad("port_protocol_mapping-vs-software_manager.software", "%s is installed alone on %s but port_protocol_mapping[%s] is %s" % (
                    name, key, key, getattr(sm.port_protocol_mapping.get(key), "name", None)))
        return v

    def check_initial(self, s):
        return _dedup(self._ports(s, "initial") + self._registries(s, "initial"))

    # ------------------------------------------------------------------ canon
    def canon(self, s):
        ids = hs.Ids()
        h = s.host
        sm = h.software_manager
        parts = [hs.node_canon(h, ids), hs.node_canon(s.peer, ids)]
        for i in range(len(self.suts)):
            sw = self._sw(s, i)
            parts.append((s.refs[i].tup(), deep(sw, root=True) if sw is not None else None,
                          len(s.instances[i])))
        parts.append(tuple(sorted(x.name for x in h.services.values())))
        parts.append(tuple(sorted(x.name for x in h.applications.values())))
        parts.append(tuple(sorted(map(str, h._service_request_manager.request_types))))
        parts.append(tuple(sorted(map(str, h._application_request_manager.request_types))))
        parts.append(tuple(sorted((int(k[0]), str(k[1]), getattr(x, "name", "?"), sm.software.get(getattr(x, "name", None)) is x)
                                  for k, x in sm.port_protocol_mapping.items())))
        parts.append(tuple(sorted((n, tuple(sorted(int(p) for p in (x.listen_on_ports or ())))) for n, x in sm.software.items())))
        parts.append(len(h.session_manager.sessions_by_key))
        return tuple(parts)


def _dedup(viols):
    seen, out = set(), []
    for x in viols:
        kx = (x["clause"], x["signature"])
        if kx not in seen:
            seen.add(kx)
            out.append(x)
    return out


# ----------------------------------------------------------------------------------------------------------------
# replay / run
# ----------------------------------------------------------------------------------------------------------------
def make_adapter(p):
    return LifecycleAdapter(p["suts"], p.get("rd", 1), p.get("power", (0, 0)), p.get("listener", False), p.get("init", "default"),
                            p.get("api", True), p.get("prefix", ()))


def replay(doc):
    ad = make_adapter(doc["params"])
    s = ad.build()
    out = list(ad.check_initial(s))
    for ev in doc["history"]:
        ad.apply(s, tuple(ev))
    if doc.get("event") is not None:
        _, v = ad.apply(s, tuple(doc["event"]))
        out += v
    return out


def _pairs(items):
    """Shipped software that shares a (port, protocol) key with other shipped software (port 0 = no port: skipped)."""
    groups = {}
    for n, c in items.items():
        if c["port"] != 0:
            groups.setdefault((c["port"], c["protocol"]), []).append(n)
    out = []
    for key, names in sorted(groups.items()):
        # first the pre-installed item, then services, then applications: the order in which a scenario installs them
        names = sorted(names, key=lambda n: (not items[n]["system"], items[n]["kind"] != "service", n))
        for a in range(len(names)):
            for b in range(a + 1, len(names)):
                out.append([names[a], names[b]])
    return out


def payload_vacuity():
    """Is the payload event a real collision?  For every class: RUNNING software + one payload -> was receive called, did it handle it."""
    out = {}
    for n, c in catalog()["items"].items():
        ad = LifecycleAdapter([n], init="running")
        s = ad.build()
        if ad._op(s, 0) != "RUNNING":
            out[n] = {"state": ad._op(s, 0)}
            continue
        o, _ = ad.apply(s, ("payload", 0))
        rec = o[-1][0]
        out[n] = {"state": "RUNNING", "receive_calls": rec[2], "handled": rec[3], "raised": o[1],
                  "addressed_to": list(c["target"])}
    return out


def plan(tier):
    """[(adapter, depth, state budget, time budget)]"""
    cat = catalog()
    items = cat["items"]
    names = sorted(items, key=lambda n: (items[n]["kind"] != "service", n))
    p = []
    if tier == "thorough":
        for n in names:
            c = items[n]
            p.append((LifecycleAdapter([n], rd=1), 6, 80000, 1500))
            p.append((LifecycleAdapter([n], rd=2, power=(1, 1)), 6, 80000, 1500))
            p.append((LifecycleAdapter([n], rd=0, listener=True), 4, 30000, 1500))
            if c["kind"] == "service":
                p.append((LifecycleAdapter([n], rd=2, prefix=[("req", 0, "restart")] + [("tick",)] * 4), 5, 60000, 1500))
                p.append((LifecycleAdapter([n], rd=3, prefix=[("req", 0, "restart"), ("tick",), ("tick",), ("req", 0, "disable"),
                                                              ("req", 0, "enable"), ("req", 0, "start")]), 5, 60000, 1500))
            if c["kind"] == "application" and not c["system"]:
                p.append((LifecycleAdapter([n], rd=1, init="running"), 6, 60000, 1500))
        for pr in _pairs(items):
            p.append((LifecycleAdapter(pr, rd=1, init="running"), 4, 30000, 1500))
    else:
        for n in names:
            c = items[n]
            # quick: SoftwareManager.install/uninstall of services is explored by the pair harnesses (and by thorough)
            p.append((LifecycleAdapter([n], rd=1, api=False), 4, 8000, 120))
            p.append((LifecycleAdapter([n], rd=1, listener=True, api=False), 2, 2000, 120))
            if c["kind"] == "application" and not c["system"]:
                p.append((LifecycleAdapter([n], rd=1, init="running"), 3, 4000, 120))
            if c["kind"] == "service":
                # start state: the service has been restarted once and is running again (a second timed transition)
                p.append((LifecycleAdapter([n], rd=2, api=False, prefix=[("req", 0, "restart")] + [("tick",)] * 4), 3, 4000, 120))
                # ... and: a restart that was cut short (disabled one step into it), then enabled and started again
                p.append((LifecycleAdapter([n], rd=3, api=False, prefix=[("req", 0, "restart"), ("tick",), ("tick",), ("req", 0, "disable"),
                                                                        ("req", 0, "enable"), ("req", 0, "start")]), 3, 4000, 120))
        for pr in _pairs(items):
            p.append((LifecycleAdapter(pr, rd=1, init="running"), 2, 2000, 120))
    return p


def run(tier, is_known):
    t0 = time.time()
    cat = catalog()
    pl = plan(tier)
    for ad, _, _, _ in pl:  # register every adapter before the pool forks: no pool restart between harnesses
        engine._ADAPTERS[ad.name] = ad
    viols, per, samples = [], [], []
    hist = {}
    states = trans = outcomes = 0
    exhaustive = True
    engine.pool()  # fork once, after every adapter is registered

    def one(job):
        ad, depth, sb, tb = job
        t1 = time.time()
        r = engine.bfs(ad, depth, state_budget=sb, time_budget=tb, is_known=is_known, max_violations=10**6)
        return r, time.time() - t1

    # the harnesses are independent: their BFS levels are interleaved on the one worker pool (a level barrier of one
    # harness does not idle the pool); results are reported in plan order
    from concurrent.futures import ThreadPoolExecutor

    with ThreadPoolExecutor(max_workers=max(1, min(len(pl), common.WORKERS))) as ex:
        results = list(ex.map(one, pl))
    for (ad, depth, sb, tb), (r, wall) in zip(pl, results):
        viols += r.violations
        states += r.states
        trans += r.transitions
        outcomes += len(r.outcomes)
        for k, n in r.hist.items():
            hist[k] = hist.get(k, 0) + n
        if len(samples) < 6:
            samples += r.samples[:1]
        exhaustive = exhaustive and r.capped is None
        per.append({"adapter": ad.name, "params": ad.params(), "depth_requested": depth, "depth_completed": r.max_depth_completed,
                    "states": r.states, "transitions": r.transitions, "merged_by_canon": r.merged,
                    "pruned_after_violation": r.pruned, "frontier_emptied": r.frontier_emptied, "cap": r.capped,
                    "level_sizes": r.level_sizes, "determinism_replays": r.determinism_checked,
                    "distinct_outcomes": len(r.outcomes), "violations": len(r.violations), "wall_s": round(wall, 1)})
    vac = payload_vacuity()
    for kind, verbs in (("service", SVC_VERBS), ("application", APP_VERBS + ["install", "uninstall"])):
        for verb in verbs:
            form_request(kind, "x", verb)  # fills _ACTION_FALLBACKS in this process (the workers do the same)
    items = cat["items"]
    cov = {
        "states": states, "transitions": trans, "traces_validated_against_impl": trans,
        "samples": samples or [{"history": []}], "exhaustive": exhaustive,
        "explanation": "every event sequence up to the stated depth over the stated alphabet was executed on real Computer/Simulation "
                       "objects (one harness per registry class; states de-duplicated by canonical form); after every transition the "
                       "reference lifecycle, the open-port / payload monitor and the registry agreement were compared with the objects",
        "software_under_check": {n: {"kind": c["kind"], "class": c["cls"].__name__, "pre_installed": c["system"],
                                     "port": c["port"], "protocol": c["protocol"], "listen_on_ports": c["listen"],
                                     "payload_addressed_to": list(c["target"]), "addressable_over_the_network": c["addressable"]}
                                 for n, c in items.items()},
        "registry_classes_skipped": cat["skipped"], "modules_that_failed_to_import": cat["failed_imports"],
        "shared_port_pairs": _pairs(items),
        "payload_event_when_running": vac,
        "requests_formed_by_action_classes": not _ACTION_FALLBACKS, "actions_without_class": sorted(_ACTION_FALLBACKS),
        "harnesses": per, "event_histogram": hist, "distinct_outcomes": outcomes,
    }
    capped = [x["adapter"] for x in per if x["cap"]]
    return {
        "violations": viols, "coverage": cov, "level": "model_checking",
        "assumptions": [
            "restart: RESTARTING for restart_duration ticks, RUNNING on tick restart_duration+1 (DESIGN.md §2 convention shared with "
            "node boot, documented in base_hardware.rst; the service docs and tests do not pin the tick); install: RUNNING on tick "
            "install_duration; ticks count only while the node is ON (software is not stepped on a node that is not ON)",
            "execute is documented as possible whenever the node is on: its status is not judged; the only move it may make is the "
            "documented run transition CLOSED -> RUNNING",
            "fix in its documented source state RUNNING: status not judged here (depends on the health state, C14)",
            "power off moves RUNNING and PAUSED services to STOPPED and RUNNING applications to CLOSED, power on moves STOPPED/CLOSED "
            "to RUNNING; DISABLED, RESTARTING and INSTALLING survive a power cycle unchanged (software.rst + convention)",
            "install of an installed application / uninstall of an absent one: operating state must not change, status not judged",
            "a payload counts as handled only if receive() of an instance of the software returned true, changed that instance or "
            "sent a frame from inside the call; exceptions escaping an event are recorded in the outcome, not judged",
            "one host, one peer, one switch; restart_duration in {0,1,2}; node power durations (0,0) and (1,1); install_duration "
            "is the class default (2)",
        ],
        "summary": "classes=%d harnesses=%d states=%d transitions=%d capped=%d wall=%.0fs" % (
            len(items), len(per), states, trans, len(capped), time.time() - t0),
    }
