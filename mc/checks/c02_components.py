"""C02 component level: observe(state) must be a member of the declared space for every state dictionary of a covering
product. States are *real* ``Simulation.describe_state()`` dictionaries of GEN members in which one source leaf at a time
is driven through its whole domain (every value of the simulator enum read from the simulator modules at run time, every
count from 0 to top-threshold+2 and a large value, traffic/load from 0 to 10x nominal, component present/absent), each
crossed with every power state of the owning node.
"""
from __future__ import annotations

import copy
import re
import time

from .. import common, engine, harness_env as HE
from ..engine import violation

common.import_sim()


def _enums():
    from primaite.simulator.file_system.file_system_item_abc import FileSystemItemHealthStatus
    from primaite.simulator.network.hardware.node_operating_state import NodeOperatingState
    from primaite.simulator.network.hardware.nodes.network.router import ACLAction
    from primaite.simulator.system.applications.application import ApplicationOperatingState
    from primaite.simulator.system.services.service import ServiceOperatingState
    from primaite.simulator.system.software import SoftwareHealthState

    return {
        "node_op": [e.value for e in NodeOperatingState], "svc_op": [e.value for e in ServiceOperatingState],
        "app_op": [e.value for e in ApplicationOperatingState], "sw_health": [e.value for e in SoftwareHealthState],
        "fs_health": [e.value for e in FileSystemItemHealthStatus], "acl_action": [e.value for e in ACLAction],
    }


COUNTS = list(range(0, 13)) + [100]


def _leaf_plans(state, cfg_variant):
    """Yield (label, node_hostname_or_None, mutator(state_copy, value), domain)."""
    E = _enums()
    nodes = state["network"]["nodes"]
    plans = []

    def setter(path):
        def f(st, val):
            d = st
            for k in path[:-1]:
                d = d[k]
            d[path[-1]] = val
        return f

    def deleter(path):
        def f(st, val):
            d = st
            for k in path[:-1]:
                d = d[k]
            d.pop(path[-1], None)
        return f

    for hn, ns in nodes.items():
        base = ["network", "nodes", hn]
        plans.append(("node.operating_state", hn, setter(base + ["operating_state"]), E["node_op"]))
        plans.append(("node.absent", None, deleter(base), [None]))
        for sn, ss in ns.get("services", {}).items():
            p = base + ["services", sn]
            plans.append(("service.operating_state", hn, setter(p + ["operating_state"]), E["svc_op"]))
            plans.append(("service.health_state_actual", hn, setter(p + ["health_state_actual"]), E["sw_health"]))
            plans.append(("service.health_state_visible", hn, setter(p + ["health_state_visible"]), E["sw_health"]))
            if sn != "user-session-manager":
                plans.append(("service.absent", hn, deleter(p), [None]))
        for an, as_ in ns.get("applications", {}).items():
            p = base + ["applications", an]
            plans.append(("application.operating_state", hn, setter(p + ["operating_state"]), E["app_op"]))
            plans.append(("application.health_state_actual", hn, setter(p + ["health_state_actual"]), E["sw_health"]))
            plans.append(("application.health_state_visible", hn, setter(p + ["health_state_visible"]), E["sw_health"]))
            plans.append(("application.num_executions", hn, setter(p + ["num_executions"]), COUNTS))
            plans.append(("application.absent", hn, deleter(p), [None]))
        fs = ns.get("file_system")
        if fs:
            p = base + ["file_system"]
            plans.append(("host.num_file_creations", hn, setter(p + ["num_file_creations"]), COUNTS))
            plans.append(("host.num_file_deletions", hn, setter(p + ["num_file_deletions"]), COUNTS))
            for fon, fos in fs["folders"].items():
                pf = p + ["folders", fon]
                plans.append(("folder.health_status", hn, setter(pf + ["health_status"]), E["fs_health"]))
                plans.append(("folder.visible_status", hn, setter(pf + ["visible_status"]), E["fs_health"]))

                def scanned(st, val, pf=pf):
                    d = st
                    for k in pf:
                        d = d[k]
                    d["scanned_this_step"] = True
                    d["visible_status"] = val

                plans.append(("folder.visible_status_scanned", hn, scanned, E["fs_health"]))
                plans.append(("folder.absent", hn, deleter(pf), [None]))
                for fin, fis in fos["files"].items():
                    pfi = pf + ["files", fin]
                    plans.append(("file.health_status", hn, setter(pfi + ["health_status"]), E["fs_health"]))
                    plans.append(("file.visible_status", hn, setter(pfi + ["visible_status"]), E["fs_health"]))
                    plans.append(("file.num_access", hn, setter(pfi + ["num_access"]), COUNTS))
                    plans.append(("file.absent", hn, deleter(pfi), [None]))
        for nn, nics in ns.get("NICs", {}).items():
            p = base + ["NICs", nn]
            plans.append(("nic.enabled", hn, setter(p + ["enabled"]), [True, False]))
            plans.append(("nic.absent", hn, deleter(p), [None]))
            if "speed" in nics:
                sp = nics["speed"]
                vals = [0, 1e-6, sp / 2.0, sp * 0.999, float(sp), sp * 1.0001, sp * 1.12, sp * 10.0]

                def traffic(st, val, p=p):
                    d = st
                    for k in p:
                        d = d[k]
                    d["traffic"] = {"icmp": {"inbound": val, "outbound": val / 2},
                                    "tcp": {80: {"inbound": val, "outbound": 0}, 5432: {"inbound": 0, "outbound": val}},
                                    "udp": {53: {"inbound": val, "outbound": val}}}

                plans.append(("nic.traffic", hn, traffic, vals))
            if "nmne" in nics:
                def nmne(st, val, p=p):
                    d = st
                    for k in p:
                        d = d[k]
                    d["nmne"] = {"direction": {"inbound": {"keywords": {"*": val}}, "outbound": {"keywords": {"*": val * 2}}}}

                plans.append(("nic.nmne", hn, nmne, COUNTS))
        usm = ns.get("services", {}).get("user-session-manager")
        if usm is not None:
            p = base + ["services", "user-session-manager"]
            plans.append(("users.remote_sessions", hn, setter(p + ["active_remote_sessions"]),
                          [[], ["u1"], ["u1", "u2"], ["u1", "u2", "u3"], ["u1", "u2", "u3", "u4"], ["u"] * 9]))
            plans.append(("users.local", hn, setter(p + ["current_local_user"]), [None, "admin"]))
        for aclkey in [k for k in ns if k == "acl" or k.endswith("_acl")]:
            acl = ns[aclkey]
            rules = acl.get("acl") if isinstance(acl, dict) else None
            if not isinstance(rules, dict):
                continue
            p = base + [aclkey, "acl"]
            for slot in (0, 1, len(rules) - 1):
                for shape in ("listed", "last-listed-wildcard", "unlisted-ip", "unlisted-port", "unlisted-wildcard", "none-fields"):
                    for action in E["acl_action"]:
                        def rule(st, val, p=p, slot=slot, shape=shape, action=action):
                            d = st
                            for k in p:
                                d = d[k]
                            r = {"uuid": "x", "action": action, "protocol": "tcp", "src_ip_address": HE.IPS["client_1"],
                                 "src_wildcard_mask": "0.0.0.1", "src_port": 80, "dst_ip_address": HE.IPS["database_server"],
                                 "dst_wildcard_mask": None, "dst_port": 5432, "match_count": 0}
                            if shape == "last-listed-wildcard":
                                wl = [g for g in HE.GEN if g["name"] == cfg_variant][0].get("wildcards", ["0.0.0.1", "0.0.0.255"])
                                r["src_wildcard_mask"] = wl[-1]
                                r["dst_wildcard_mask"] = wl[-1]
                            if shape == "unlisted-ip":
                                r["src_ip_address"] = "10.9.9.9"
                                r["dst_ip_address"] = "10.9.9.8"
                            elif shape == "unlisted-port":
                                r["src_port"] = 21
                                r["dst_port"] = 6000
                                r["protocol"] = "none"
                            elif shape == "unlisted-wildcard":
                                r["src_wildcard_mask"] = "0.255.255.255"
                            elif shape == "none-fields":
                                for k in ("protocol", "src_ip_address", "src_wildcard_mask", "src_port", "dst_ip_address",
                                          "dst_wildcard_mask", "dst_port"):
                                    r[k] = None
                            d[slot] = r

                        plans.append(("acl.rule:%s" % shape, hn, rule, [None]))
            plans.append(("acl.absent", hn, deleter(base + [aclkey]), [None]))
    for ln, ls in state["network"]["links"].items():
        p = ["network", "links", ln]
        bw = ls["bandwidth"]
        plans.append(("link.current_load", None, setter(p + ["current_load"]),
                      [0, 1e-9, bw / 2.0, bw * 0.999, float(bw), bw * 1.0001, bw * 1.12, bw * 10.0]))
        plans.append(("link.absent", None, deleter(p), [None]))
    return plans


def _fork_state(state, hn):
    """Copy-on-write view: only the owning node's sub-tree (or the links table) is deep-copied."""
    st = dict(state)
    net = st["network"] = dict(state["network"])
    net["nodes"] = dict(net["nodes"])
    if hn is not None and hn in net["nodes"]:
        net["nodes"][hn] = copy.deepcopy(net["nodes"][hn])
    else:
        net["links"] = copy.deepcopy(net["links"])
    return st


_CTX = {}


def _context(vname):
    if vname in _CTX:
        return _CTX[vname]
    from primaite.game.game import PrimaiteGame

    # every variant is built, in a fixed order, in every process: observation objects of differently configured scenarios
    # living in one process must not influence each other's declared space (and detection must not depend on task order)
    for v in sorted(HE.GEN, key=lambda g: (len(g.get("wildcards", [0, 0])), g["name"])):
        game = PrimaiteGame.from_config(copy.deepcopy(HE.gen_scenario(v)))
        _ = game.agents["defender"].observation_manager.space
        _CTX[v["name"]] = (game, game.get_sim_state())
    return _CTX[vname]


def _eval(item):
    """item = (variant name, plan index range). Returns (evaluations, nontrivial, violations, sample)."""
    vname, lo, hi = item
    game, state = _context(vname)
    agent = game.agents["defender"]
    om = agent.observation_manager
    space = om.space
    plans = _leaf_plans(state, vname)
    E = _enums()
    n = 0
    nontriv = set()
    viols = []
    sample = None
    from .. import envexplore as EE

    class _FakeEnv:
        pass

    for label, hn, mut, dom in plans[lo:hi]:
        for val in dom:
            for nstate in (E["node_op"] if hn else [None]):
                st = _fork_state(state, hn)
                mut(st, val)
                if hn and hn in st["network"]["nodes"] and label != "node.operating_state":
                    st["network"]["nodes"][hn]["operating_state"] = nstate
                n += 1
                try:
                    obs = om.obs.observe(st)
                except Exception as e:  # noqa
                    viols.append(violation("observe_never_raises", "%s:%s" % (label, type(e).__name__),
                                           "variant %s %s=%r node_state=%s raised %r" % (vname, label, val, nstate, e),
                                           adapter="c02-component", params={"variant": vname, "label": label}, history=[], event=None))
                    continue
                nontriv.add(HE.sha(repr(HE.to_plain(obs))))
                if sample is None:
                    sample = {"variant": vname, "leaf": label, "value": repr(val), "owner_power_state": nstate}
                if not space.contains(obs):
                    fe = _FakeEnv()
                    fe.agent = agent
                    om.current_observation = obs
                    leaf, msg = EE._first_bad_leaf(fe, obs)
                    viols.append(violation("observation_in_space", "component:%s:%s" % (label, leaf),
                                           "variant %s: state leaf %s=%r (owner power state %s): %s" % (vname, label, val, nstate, msg),
                                           adapter="c02-component", params={"variant": vname, "label": label}, history=[], event=None))
    # keep one violation per signature
    seen = {}
    for x in viols:
        seen.setdefault(x["signature"], x)
    return n, nontriv, list(seen.values()), sample


def replay(doc):
    vname = doc["params"]["variant"]
    game, state = _context(vname)
    n = len(_leaf_plans(state, vname))
    out = []
    for lo in range(0, n, 50):
        out += _eval((vname, lo, min(n, lo + 50)))[2]
    return out


def run(tier):
    t0 = time.time()
    variants = ["gen1", "gen2", "gen0", "gen3"] if tier == "thorough" else ["gen1", "gen2"]
    items = []
    for vn in variants:
        game, state = _context(vn)
        n = len(_leaf_plans(state, vn))
        for lo in range(0, n, 12):
            items.append((vn, lo, min(n, lo + 12)))
    evals = 0
    distinct = set()
    viols = {}
    samples = []
    for item, (n, nt, v, sample) in engine.pmap("c02-components", _eval, items, chunksize=1):
        evals += n
        distinct |= nt
        for x in v:
            viols.setdefault(x["signature"], x)
        if sample and len(samples) < 3:
            samples.append(sample)
    labels = sorted({p[0] for vn in variants for p in _leaf_plans(_context(vn)[1], vn)})
    return {
        "violations": list(viols.values()),
        "coverage": {"evaluations": evals, "distinct_nontrivial": len(distinct),
                     "rule": "one source leaf of a real describe_state() driven through its whole domain x every power state of "
                             "the owning node; distinct = distinct resulting observations",
                     "samples": samples, "classes": labels, "variants": variants, "wall_s": round(time.time() - t0, 1)},
        "assumptions": ["component level mutates one source leaf at a time (plus the owner's power state), not all pairs of leaves"],
    }
