"""C11 — the action mask agrees with what the simulator would refuse.

Real PrimaiteGymEnv with action masking on (GEN members with node durations 1 and 2 so SHUTTING_DOWN/BOOTING,
restarting services and installing applications are visited).  At every explored state the *whole* mask vector is
compared with an independent walk of the live request tree that evaluates every validator along each action's path;
for the executed action a monitor on RequestManager.__call__ records where the request was turned away.
"""
from __future__ import annotations

import time

from .. import common, engine, envexplore as EE, harness_env as HE
from ..engine import violation
from . import c01

PROP = "C11"


def walk(rm, request, context=None):
    """Independent classification of a request: ("missing", depth) | ("refused", depth, validator) | ("handler", depth)."""
    from primaite.simulator.core import RequestManager

    depth = 0
    while True:
        if not request:
            return ("exhausted", depth)
        key, opts = request[0], request[1:]
        if key not in rm.request_types:
            return ("missing", depth)
        rt = rm.request_types[key]
        try:
            ok = rt.validator(opts, context or {})
        except (IndexError, KeyError, TypeError) as e:
            # the validator needs parameters the request does not carry: malformed parameters, not a missing component
            return ("malformed", depth, type(e).__name__)
        if not ok:
            return ("refused", depth, type(rt.validator).__name__)
        nxt = _next_manager(rt.func)
        if nxt is not None:
            rm, request, depth = nxt, opts, depth + 1
            continue
        return ("handler", depth)


def _next_manager(func):
    """The request manager a route delegates to: a RequestManager itself, or a component's apply_request bound method
    (which forwards to that component's manager) - however the route was registered, the rest of the path is resolved there."""
    from primaite.simulator.core import RequestManager

    if isinstance(func, RequestManager):
        return func
    owner = getattr(func, "__self__", None)
    if owner is not None and getattr(func, "__name__", "") == "apply_request" and isinstance(getattr(owner, "_request_manager", None), RequestManager):
        return owner._request_manager
    return None


class _Monitor:
    """Class-level wrapper of RequestManager.__call__: records, per outermost call, how the request ended."""

    installed = False
    trace = None  # list of events of the current outermost call
    depth = 0
    last = None

    @classmethod
    def install(cls):
        from primaite.simulator.core import RequestManager

        if cls.installed:
            return
        orig = RequestManager.__call__

        def wrapper(self, request, context):
            outer = cls.depth == 0
            if outer:
                cls.trace = []
                cls.top = list(request)
            cls.depth += 1
            try:
                # only calls that resolve the REST OF THE SAME PATH count (a handler may issue requests of its own)
                req = list(request)
                same_path = outer or (len(req) <= len(cls.top) and cls.top[len(cls.top) - len(req):] == req)
                if same_path:
                    key = request[0] if request else None
                    if key not in self.request_types:
                        cls.trace.append(("missing", key))
                    else:
                        rt = self.request_types[key]
                        ok = bool(rt.validator(request[1:], context))  # validators are pure; evaluated again by orig
                        cls.trace.append(("leaf" if _next_manager(rt.func) is None else "sub", key, ok))
                return orig(self, request, context)
            finally:
                cls.depth -= 1
                if outer:
                    cls.last = list(cls.trace)

        RequestManager.__call__ = wrapper
        cls.installed = True

    @staticmethod
    def classify(trace):
        if not trace:
            return "none"
        for ev in trace:
            if ev[0] == "missing":
                return "missing"
            if not ev[2]:
                return "refused"
        return "handler" if trace[-1][0] == "leaf" else "none"


class MaskOracle:
    def __init__(self):
        _Monitor.install()

    def _requests(self, s):
        ag = s.env.agent
        return {i: ag.action_manager.form_request(action_identifier=a[0], action_options=a[1])
                for i, a in ag.action_manager.action_map.items()}

    def _vector(self, s, where):
        import numpy as np

        v = []
        env = s.env
        if not env.agent.config.agent_settings.action_masking:
            return v
        mask = [int(x) for x in env.action_masks()]
        rm = env.game.simulation._request_manager
        reqs = self._requests(s)
        for i, req in reqs.items():
            w = walk(rm, list(req))
            want = 1 if w[0] == "handler" else 0
            if mask[i] != want:
                name = EE.action_name(s, i)
                v.append(violation("mask_equals_refusal", "%s:mask=%d:walk=%s" % (name, mask[i], ":".join(map(str, w[0:1] + w[2:3]))),
                                   "%s: action %d %s %s: mask=%d but the request %s would be %s" % (
                                       where, i, name, dict(env.agent.action_manager.action_map[i][1]), mask[i], req, w)))
        # one per signature
        seen = {}
        for x in v:
            seen.setdefault(x["signature"], x)
        return list(seen.values())

    def after_reset(self, s, obs, info, old_game):
        return self._vector(s, "after reset")

    def before_step(self, s, a):
        env = s.env
        if not env.agent.config.agent_settings.action_masking:
            s.scratch["mask_pre"] = None
            return
        s.scratch["mask_pre"] = int(env.action_masks()[a])
        req = self._requests(s)[a]
        s.scratch["walk_pre"] = walk(env.game.simulation._request_manager, list(req))
        s.scratch["req"] = list(req)
        # capture the classification of exactly the blue request at the moment it is applied
        sim = env.game.simulation
        orig = sim.apply_request
        box = s.scratch["box"] = {}

        def spy(request, context=None, orig=orig, box=box, target=list(req), sim=sim):
            is_blue = list(request) == target and "walk_exec" not in box
            if is_blue:
                box["walk_exec"] = walk(sim._request_manager, list(request))
            r = orig(request, context)
            if is_blue:
                box["trace"] = _Monitor.last
                box["status"] = getattr(r, "status", None)
                box["data"] = getattr(r, "data", None)
            return r

        object.__setattr__(sim, "apply_request", spy)
        s.scratch["restore"] = (sim, orig)
        # the verdict for the chosen action once the simulator's own start-of-step processing has run (before ANY agent acts)
        game = env.game
        orig_pre = game.pre_timestep

        def pre(orig_pre=orig_pre, box=box, sim=sim, target=list(req)):
            r = orig_pre()
            box["walk_after_pre"] = walk(sim._request_manager, list(target))
            return r

        game.pre_timestep = pre
        s.scratch["restore_pre"] = (game, orig_pre)

    def after_step(self, s, a, result):
        v = []
        if s.scratch.get("restore"):
            sim, orig = s.scratch.pop("restore")
            try:
                object.__delattr__(sim, "apply_request")
            except Exception:  # noqa
                object.__setattr__(sim, "apply_request", orig)
        if s.scratch.get("restore_pre"):
            game, orig_pre = s.scratch.pop("restore_pre")
            try:
                del game.pre_timestep
            except Exception:  # noqa
                game.pre_timestep = orig_pre
        mp = s.scratch.get("mask_pre")
        box = s.scratch.get("box") or {}
        name = EE.action_name(s, a)
        if mp is not None and "walk_after_pre" in box and (box["walk_after_pre"][0] == "handler") != (s.scratch["walk_pre"][0] == "handler"):
            # nobody has acted since the mask was computed: only the simulator's own start-of-step processing lies in between,
            # so "executing it now" (the mask's promise) and the execution that follows disagree
            v.append(violation("mask_holds_until_the_agents_act", "%s:mask=%d:%s->%s" % (name, mp, s.scratch["walk_pre"][0], box["walk_after_pre"][0]),
                               "action %d %s: mask=%d was computed when the request would be %s; after the simulator's start-of-step "
                               "processing (before any agent acted) it would be %s (request %s)" % (
                                   a, name, mp, s.scratch["walk_pre"], box["walk_after_pre"], s.scratch["req"])))
        if mp is not None and "walk_exec" in box and box["walk_exec"] == s.scratch["walk_pre"]:
            cls = _Monitor.classify(box.get("trace"))
            status = box.get("status")
            if mp == 0:
                if status == "success" or cls == "handler":
                    v.append(violation("masked_action_never_succeeds", "%s:%s:%s" % (name, cls, status),
                                       "action %d %s was masked out but executing it ended as %s / status %s (request %s)" % (
                                           a, name, cls, status, s.scratch["req"])))
            else:
                if cls in ("refused", "missing"):
                    v.append(violation("allowed_action_not_refused_by_permission_rule", "%s:%s:%s" % (name, cls, s.scratch["walk_pre"][0]),
                                       "action %d %s was allowed by the mask but executing it was %s before any handler: %s (request %s)" % (
                                           a, name, cls, box.get("data"), s.scratch["req"])))
        return v + self._vector(s, "after step %d" % s.steps)


MASK_RELEVANT = ("node-shutdown", "node-startup", "node-reset", "node-service-", "node-application-", "host-nic-", "network-port-",
                 "node-file-delete", "node-file-create", "node-folder-create", "node-folder-restore", "node-file-restore",
                 "node-file-scan", "node-folder-scan", "node-os-scan")


def alphabet(cfg, reduced=False):
    blue = [a for a in cfg["agents"] if a["type"] == "proxy-agent"][0]
    amap = blue["action_space"]["action_map"]
    full = [i for i in sorted(amap) if amap[i]["action"].startswith(MASK_RELEVANT) or i == 0]
    if not reduced:
        return full
    seen = set()
    out = []
    for i in full:
        opts = str(sorted(amap[i].get("options", {}).items()))
        k = (amap[i]["action"], "ghost" in opts or "nope" in opts or "no-such" in opts)
        if k not in seen:
            seen.add(k)
            out.append(i)
    return out


def plan(tier):
    P = []
    base = dict(HE.GEN[0])
    d1 = dict(base, name="m-routed-d1", masking=True, dur=1)
    d2 = dict(base, name="m-routed-d2", masking=True, dur=2)
    fw = dict(base, name="m-fw-d1", masking=True, dur=1, topo="firewall")
    if tier == "thorough":
        members = [d1, d2, fw, dict(base, name="m-routed-d0", masking=True, dur=0),
                   dict(base, name="m-fw-d2", masking=True, dur=2, topo="firewall", flatten=True)]
        # sized for about 30 minutes on 16 cores: every level that was started is completed, a time budget only stops the
        # search between levels (reported as a cap)
        for v in members:
            cfg = HE.gen_scenario(v)
            if v in (d1, d2, fw):
                P.append((v["name"] + "-r", cfg, "bfs", dict(depth=3, budget=150000, reduced=True, variant=v, time=240)))
            P.append((v["name"], cfg, "dev", dict(H=8, k=1, variant=v)))
        for v in (d2, fw):
            cfg = HE.gen_scenario(v)
            P.append((v["name"], cfg, "bfs", dict(depth=2, budget=150000, variant=v, time=600)))
        P.append((d2["name"] + "-k2", HE.gen_scenario(d2), "dev", dict(H=7, k=2, variant=d2, reduced=True)))
        P += _after_plans(d1, 10) + _after_plans(d2, 10)
        return P
    P.append((d2["name"], HE.gen_scenario(d2), "bfs", dict(depth=2, budget=150000, reduced=True, variant=d2)))
    P.append((fw["name"], HE.gen_scenario(fw), "bfs", dict(depth=1, budget=150000, variant=fw)))
    P.append((d1["name"], HE.gen_scenario(d1), "dev", dict(H=6, k=1, variant=d1, reduced=True)))
    P += _after_plans(d1, 9)
    return P


AFTER = [("restart", [("node-service-restart", "'web-server'")]), ("dbrestart", [("node-service-restart", "'database-service'")]),
         ("install", [("node-application-install", "'database-client'")]), ("shutdown", [("node-shutdown", "'web_server'")]),
         ("fix", [("node-service-fix", "'web-server'")]), ("reset", [("node-reset", "'database_server'")]),
         ("delete-restore", [("node-file-delete", "'a.txt'"), ("node-folder-restore", "'docs'")])]


def _after_plans(v, H):
    out = []
    cfg = HE.gen_scenario(v)
    for label, hints in AFTER:
        out.append(("%s-after-%s" % (v["name"], label), cfg, "dev", dict(H=H, k=1, variant=v, reduced=True, script_hints=hints)))
    return out


def make_adapter(name, cfg, p, oracles):
    ad = c01.Adapter("c11-%s-%s" % (name, "k%d" % p.get("k", 0) if "H" in p else "bfs"), cfg, oracles,
                     init_reset_seed=3, alphabet=alphabet(cfg, p.get("reduced", False)), resets=((None,),),
                     dev_resets=True, extra_params={"scenario_name": name, "p": {k: v for k, v in p.items() if k != "variant"},
                                                     "variant": p.get("variant")})
    if p.get("script_hints"):
        # the default script starts with a timed operation (service restart, application install, node shutdown ...): the single
        # deviations then fall into every step of its transitional phase and into the step in which it completes
        idx = c01.pick(cfg, [tuple(h) for h in p["script_hints"]])

        def default_event(s, t, ad=ad, idx=idx):
            return ("a", idx[t]) if t < len(idx) else ("a", ad.default_action)

        ad.default_event = default_event
    return ad


# ------------------------------------------------------------------------------------------------ two masked agents
class TwoAgentAdapter(engine.Adapter):
    """One PrimaiteGame with TWO masked proxy agents whose action maps differ at (almost) every index, driven the way the
    multi-agent environment drives it (store_action for both, pre_timestep, apply_agent_actions, advance_timestep,
    update_agents).  After every step the mask of EACH agent (PrimaiteGame.action_mask) is compared, entry by entry, with the
    independent walk of the request that THIS agent's action map forms for that entry."""

    fork_expand = False

    def __init__(self, variant, n1=7, n2=7):
        import copy as _copy

        self.variant = variant
        self.name = "c11-two-agents-%s" % variant["name"]
        cfg = HE.gen_scenario(variant)
        blue = [a for a in cfg["agents"] if a["type"] == "proxy-agent"][0]
        amap = blue["action_space"]["action_map"]
        red = alphabet(cfg, reduced=True)
        second = _copy.deepcopy(blue)
        second["ref"] = "defender2"
        # the second agent's map: the reduced alphabet in reverse order (index i means something else than for the first agent)
        second["action_space"]["action_map"] = {0: {"action": "do-nothing", "options": {}}}
        for k, i in enumerate(reversed(red), start=1):
            second["action_space"]["action_map"][k] = _copy.deepcopy(amap[i])
        second["reward_function"] = {"reward_components": [{"type": "action-penalty", "weight": 1.0,
                                                            "options": {"action_penalty": -1.0, "do_nothing_penalty": 0.0}}]}
        cfg["agents"].append(second)
        self.cfg = cfg
        self.a1 = red[:n1]
        self.a2 = list(range(0, len(second["action_space"]["action_map"])))[:n2]
        self._menu = [("pair", i, j) for i in self.a1 for j in self.a2]

    def params(self):
        return {"two_agents": True, "variant": self.variant}

    def build(self):
        import copy as _copy
        from primaite.game.game import PrimaiteGame
        from .. import seams

        seams.reset()
        _Monitor.install()

        class S:
            pass

        s = S()
        import random
        import numpy as np

        random.seed(3)
        np.random.seed(3)
        s.game = PrimaiteGame.from_config(_copy.deepcopy(self.cfg))
        s.game.setup_for_episode(episode=0)
        s.game.update_agents(s.game.get_sim_state())
        s.steps = 0
        return s

    def menu(self, s):
        return self._menu

    def label(self, ev):
        return "pair"

    def canon(self, s):
        from .. import harness_sim as HS

        ids = HS.Ids()
        deep = tuple(HS.node_canon(n, ids) for n in s.game.simulation.network.nodes.values())
        return (HE.sha(EE.normalise_ids(repr(deep))), s.game.step_counter)

    def _vectors(self, s, where):
        v = {}
        rm = s.game.simulation._request_manager
        for name in ("defender", "defender2"):
            ag = s.game.agents[name]
            mask = [int(x) for x in s.game.action_mask(name)]
            for i, a in ag.action_manager.action_map.items():
                req = ag.action_manager.form_request(action_identifier=a[0], action_options=a[1])
                w = walk(rm, list(req))
                want = 1 if w[0] == "handler" else 0
                if mask[i] != want:
                    sig = "agent=%s:%s:mask=%d:walk=%s" % ("first" if name == "defender" else "second", a[0], mask[i], w[0])
                    v.setdefault(sig, violation("mask_equals_refusal", sig,
                                                "%s: agent %s action %d %s %s: mask=%d but ITS request %s would be %s" % (
                                                    where, name, i, a[0], dict(a[1]), mask[i], req, w)))
        return list(v.values())

    def check_initial(self, s):
        return self._vectors(s, "after set-up")

    def apply(self, s, ev):
        g = s.game
        g.agents["defender"].store_action(ev[1])
        g.agents["defender2"].store_action(ev[2])
        g.pre_timestep()
        g.apply_agent_actions()
        g.advance_timestep()
        g.update_agents(g.get_sim_state())
        s.steps += 1
        out = [g.agents[n].history[-1].response.status for n in ("defender", "defender2")]
        return out, self._vectors(s, "after step %d" % s.steps)


def replay(doc):
    p = doc["params"]
    if p.get("two_agents"):
        ad = TwoAgentAdapter(p["variant"])
        s = ad.build()
        out = list(ad.check_initial(s))
        for ev in doc["history"]:
            ad.apply(s, tuple(ev))
        if doc.get("event") is not None:
            out += ad.apply(s, tuple(doc["event"]))[1]
        return out
    cfg = HE.gen_scenario(p["variant"])
    ad = make_adapter(p["scenario_name"], cfg, dict(p["p"], variant=p["variant"]), [MaskOracle()])
    s = ad.build()
    out = list(ad.check_initial(s))
    for ev in doc["history"]:
        ad.apply(s, tuple(ev))
    if doc.get("event") is not None:
        _, v = ad.apply(s, tuple(doc["event"]))
        out += v
    return out


def run(tier, is_known):
    t0 = time.time()
    HE.import_env()
    viols = []
    per = []
    states = trans = execs = 0
    samples = []
    hist = {}
    todo = []
    for name, cfg, mode, p in plan(tier):
        ad = make_adapter(name, cfg, p, [MaskOracle()])
        engine._ADAPTERS[ad.name] = ad
        todo.append((name, mode, p, ad))
    two = TwoAgentAdapter(dict(HE.GEN[0], name="m2-routed-d1", masking=True, dur=1))
    engine._ADAPTERS[two.name] = two
    exhaustive = True
    mask_entries = 0
    r2 = engine.bfs(two, 3 if tier == "thorough" else 2, state_budget=100000, time_budget=900 if tier == "thorough" else 60, is_known=is_known)
    viols += r2.violations
    states += r2.states
    trans += r2.transitions
    exhaustive = exhaustive and r2.capped is None
    per.append({"scenario": two.name, "mode": "bfs (two masked agents, joint actions)", "depth_completed": r2.max_depth_completed,
                "states": r2.states, "transitions": r2.transitions, "merged_by_canon": r2.merged, "cap": r2.capped,
                "joint_actions": len(two._menu)})
    for name, mode, p, ad in todo:
        t1 = time.time()
        if mode == "bfs":
            r = engine.bfs(ad, p["depth"], state_budget=p["budget"], time_budget=p.get("time", 10**9), is_known=is_known)
            states += r.states
            trans += r.transitions
            exhaustive = exhaustive and r.capped is None
            per.append({"scenario": name, "mode": "bfs", "depth_completed": r.max_depth_completed, "states": r.states,
                        "transitions": r.transitions, "merged_by_canon": r.merged, "pruned_after_violation": r.pruned, "cap": r.capped,
                        "alphabet": len(ad.alphabet), "wall_s": round(time.time() - t1, 1)})
        else:
            r = engine.deviations(ad, p["H"], p["k"])
            execs += r.executions
            trans += r.transitions
            states += r.transitions
            per.append({"scenario": name, "mode": "deviations", "horizon": p["H"], "k_completed": p["k"], "executions": r.executions,
                        "transitions": r.transitions, "wall_s": round(time.time() - t1, 1)})
        viols += r.violations
        for k, n in r.hist.items():
            hist[k] = hist.get(k, 0) + n
        samples += r.samples[:1]
    viols = EE.drop_foreign(viols)
    n_actions = len(HE.blue_actions(HE.GEN[0]))
    cov = {"states": states, "transitions": trans, "traces_validated_against_impl": trans, "executions": execs,
           "mask_entries_compared": trans * n_actions, "samples": samples or [{"history": []}], "exhaustive": exhaustive,
           "harnesses": per, "event_histogram": hist,
           "explanation": "after every explored step/reset the whole mask vector (every action-map entry) is compared with an independent "
                          "walk of the live request tree; for the executed action the refusal point is observed by a monitor"}
    return {"violations": viols, "coverage": cov, "level": "model_checking",
            "assumptions": ["validators are pure (the monitor and the walker call them an extra time)",
                            "executed-action clauses are skipped when another agent's action changed the request's classification "
                            "between mask computation and execution inside the same step"],
            "summary": "states=%d transitions=%d executions=%d mask-entries=%d wall=%.0fs" % (
                states, trans, execs, trans * n_actions, time.time() - t0)}
