"""C06 — blocking is effective: a host cut off from another cannot affect it.

Small *real* networks built through the Python API: T1 switched LAN (a - switch - b), T2 routed (a - router - b), T3
firewall with three zones (external / internal / dmz, one host per zone; every ordered pair of zones is a placement of
attacker a and victim b), T4 the same firewall with a core router behind its internal port and the victim in the subnet
behind that router (static routes both ways), attacker in the dmz or outside.  T2/T3 also run with extra route-table content
on the router/firewall that must not matter for directly connected destinations (``ROUTES``: a default route via the external
or the dmz side, a covering static route via the external side; deny shapes any / dstself / implicit in the list that guards
the victim).  The attacker carries data-manipulation-bot, ransomware-script, dos-bot, database-client,
ftp-client, nmap, terminal, web-browser and a C2 application; the victim carries database-service, ftp-server, web-server,
terminal, users, files and the C2 counterpart.  The C2 suite cannot run both of its halves on one node (both listen on the
same ports and both answer keep-alives), so the C2 arrangement is a harness dimension ``role``: ``bA`` = beacon on a /
server on b, ``sA`` = server on a / beacon (+ ransomware-script) on b.

Enumerated (explicit products, nothing sampled; ``plan()``):
  topology/placement x role x block mechanism {ACL/firewall-list deny of shape any-any | exact src | exact dst | wildcard
  range (aligned network base) | wildcard range whose base is the attacker's / the victim's own unaligned address |
  implicit deny with unrelated permits; interface disabled on the attacker / the victim / either side of the middle
  device; link never connected or removed; victim off; middle device off}
  x block placement {cold: before any traffic, warm: after a warm-up in which a first pinged its gateway (the router /
  firewall itself) and logged in to that device's terminal over SSH - so the device holds ICMP and TCP/22 sessions with the
  attacker -, then pinged b, opened a database connection, a remote terminal session and a C2 session, + one tick}
  x EVERY attack sequence of length <= depth over the 15-event attacker alphabet (``MENU_COMMON`` + ``MENU_ROLE``).
  quick: the core product (T1, T2, T3 with the attacker outside / victim inside: every mechanism and shape; the other five
  T3 placements: any-any deny in each of their two lists; T4: every shape at the top of internal-inbound) at depth 2;  thorough: the core product in all four
  (placement, role) combinations at depth 3 + the wide product (every T3 placement x both lists x every shape x every
  interface/link/power block x all four combinations) at depth 2.
The sequences of one configuration are explored as a tree; every tree node is executed in a forked snapshot of the live
objects of its parent (engine.fork_each), so a prefix is executed once; ``replay`` re-runs one history without forking.

Oracle 1 (non-interference, differential): the victim's deep state (every field of every installed software incl. its
connections, sessions, users and remote sessions, ARP cache, file system incl. health and sizes, NIC enabled flags / traffic
counters / NMNE — also as they stood at the end of the last step, before pre_timestep zeroes them —, power state) after
(prefix; block; sigma) equals its state after (prefix; block; as many ticks as sigma contains, the attacker idle) — checked
after every event of every sequence and once more after ``SETTLE`` further ticks.  Signature of a difference: if the
victim's interface accepted more frames than in the idle run, the block mechanism that leaked; otherwise (no frame crossed:
software reached the other node's objects) the event and the changed components.
Oracle 2 (per-frame monitor, class-level wrappers; also applied under protocol-/port-specific deny rules where oracle 1 does
not apply, and in the unblocked control runs): once an ACL of a router/firewall has returned *deny* for a Frame object that
node never calls send_frame with it, never hands it to its session manager / software manager, and its software-visible
state (ARP cache, sessions, software) does not change between the deny verdict and the end of receive_frame; if the deny is
the first verdict on that frame, nothing was learned from it before the verdict either.

Vacuity: the same trees are run without a block ("control" configurations); for every alphabet event the coverage records
whether it changed the victim there (every event must), and the warm-up must succeed completely (else HarnessError).
"""
from __future__ import annotations

import datetime as _dt
import enum
import gc
import re
import time
from ipaddress import IPv4Address, IPv4Network

from pydantic import BaseModel

from .. import common, engine, seams
from .. import harness_sim as H
from ..engine import violation

common.import_sim()

from primaite.simulator.network.hardware.base import NetworkInterface, WiredNetworkInterface  # noqa: E402
from primaite.simulator.network.nmne import NMNEConfig  # noqa: E402
from primaite.simulator.network.hardware.nodes.host.host_node import NIC  # noqa: E402
from primaite.simulator.network.hardware.nodes.network.firewall import Firewall  # noqa: E402
from primaite.simulator.network.hardware.nodes.network.router import (  # noqa: E402
    AccessControlList,
    ACLAction,
    Router,
    RouterInterface,
)
from primaite.simulator.network.hardware.nodes.network.switch import SwitchPort  # noqa: E402
from primaite.simulator.system.applications.database_client import DatabaseClient  # noqa: E402
from primaite.simulator.system.applications.red_applications.c2.c2_beacon import C2Beacon  # noqa: E402
from primaite.simulator.system.applications.red_applications.c2.c2_server import C2Server  # noqa: E402
from primaite.simulator.system.applications.red_applications.data_manipulation_bot import DataManipulationBot  # noqa: E402
from primaite.simulator.system.applications.red_applications.dos_bot import DoSBot  # noqa: E402
from primaite.simulator.system.applications.red_applications.ransomware_script import RansomwareScript  # noqa: E402
from primaite.simulator.system.core.session_manager import SessionManager  # noqa: E402
from primaite.simulator.system.core.software_manager import SoftwareManager  # noqa: E402
from primaite.simulator.system.services.database.database_service import DatabaseService  # noqa: E402
from primaite.simulator.system.services.ftp.ftp_client import FTPClient  # noqa: E402
from primaite.simulator.system.services.ftp.ftp_server import FTPServer  # noqa: E402
from primaite.simulator.system.services.web_server.web_server import WebServer  # noqa: E402

PROP = "C06"
SETTLE = 2          # idle ticks appended to every sequence before the second comparison
KEEP = 3            # violations kept per (clause, signature) and configuration
ADAPTER = "c06-tree"

ZONES = {"ext": ("10.0.1.2", "10.0.1.1", 1, "external"), "int": ("10.0.2.2", "10.0.2.1", 2, "internal"),
         "dmz": ("10.0.3.2", "10.0.3.1", 3, "dmz")}
FW_LISTS = ["external_inbound", "external_outbound", "internal_inbound", "internal_outbound", "dmz_inbound", "dmz_outbound"]
# srcself / dstself: a wildcard range whose base is the attacker's / the victim's own (unaligned) address, e.g.
# DENY src 10.0.1.2 wildcard 0.0.0.255
FULL_SHAPES = ["any", "src", "dst", "srcwc", "srcself", "dstself", "implicit"]
PARTIAL_SHAPES = ["icmp", "tcp", "tcp5432", "udp"]   # not every path blocked: only oracle 2 applies

MENU_COMMON = [["tick"], ["ping"], ["dbc"], ["dmb"], ["rsw"], ["dos"], ["nmap_ping"], ["nmap_port"], ["ftp"], ["login"],
               ["rcmd"], ["logoff"], ["web"]]
MENU_ROLE = {"bA": [["c2b_exec"], ["c2b_conf"]], "sA": [["c2s_term"], ["c2s_rconf"]]}


def menu_for(role):
    return MENU_COMMON + MENU_ROLE[role]


# ----------------------------------------------------------------------------------------------- deep canonical state
_UUID = re.compile(r"^[0-9a-f]{8}-[0-9a-f]{4}-[0-9a-f]{4}-[0-9a-f]{4}-[0-9a-f]{12}$")
# references that lead out of the object (to the node, other nodes, loggers, request closures) or are walked separately
_SKIP = {"software_manager", "sys_log", "file_system", "parent", "_parent", "_request_manager", "folder", "dns_server",
         "parent_terminal", "parent_node", "client", "pcap", "_connected_link", "_connected_node", "router", "uuid"}


def dump(o, ids, depth=0, seen=frozenset()):
    """Every field (public and pydantic-private) of ``o``, recursively, as sorted/normalised nested tuples."""
    if o is None or isinstance(o, (bool, int)):
        return o
    if isinstance(o, float):
        return round(o, 9)
    if isinstance(o, str):
        return ids(o) if _UUID.match(o) else o
    if isinstance(o, enum.Enum):
        return "%s.%s" % (type(o).__name__, o.name)
    if isinstance(o, (IPv4Address, IPv4Network)):
        return str(o)
    if isinstance(o, (_dt.datetime, _dt.date)):
        return "<time>"
    if depth > 8:
        return "<deep:%s>" % type(o).__name__
    if isinstance(o, dict):
        items = [(dump(k, ids, depth + 1, seen), dump(v, ids, depth + 1, seen)) for k, v in o.items()]
        if any(isinstance(k, str) and _UUID.match(k) for k in o):
            return tuple(items)  # keyed by opaque ids: insertion order (deterministic), ids -> first-occurrence index
        return tuple(sorted(items, key=lambda kv: repr(kv[0])))
    if isinstance(o, (list, tuple)):
        return tuple(dump(x, ids, depth + 1, seen) for x in o)
    if isinstance(o, (set, frozenset)):
        return tuple(sorted(repr(dump(x, ids, depth + 1, seen)) for x in o))
    if id(o) in seen:
        return "<cycle:%s>" % type(o).__name__
    if isinstance(o, BaseModel):
        seen = seen | {id(o)}
        d = dict(o.__dict__)
        d.update(getattr(o, "__pydantic_private__", None) or {})
        return (type(o).__name__,) + tuple((k, dump(v, ids, depth + 1, seen)) for k, v in sorted(d.items()) if k not in _SKIP)
    if callable(o):
        return "<fn>"
    return "<%s>" % type(o).__name__


def nic_counters(n):
    ids = H.Ids()
    return tuple((port, dump(nic.traffic, ids), dump(nic.nmne, ids)) for port, nic in n.network_interface.items())


def victim_state(u):
    """Everything on the victim an attack could touch, as {component name: canonical value}."""
    n = u.b
    ids = H.Ids()
    st = {}
    # what the victim's interfaces had counted when the last step ended (an agent observes them there; pre_timestep zeroes them)
    st["nic_counters_at_end_of_last_step"] = u.eos
    st["node"] = (n.operating_state.name, n.config.start_up_countdown, n.config.shut_down_countdown, n.config.is_resetting,
                  n.node_scan_countdown, n.red_scan_countdown)
    st["node_canon"] = H.node_canon(n, ids)
    for port, nic in n.network_interface.items():
        st["nic%d" % port] = (nic.enabled, str(nic.ip_address), dump(nic.traffic, ids), dump(nic.nmne, ids),
                              nic._connected_link is not None)
    for name, sw in n.software_manager.software.items():
        st["software:" + name] = dump(sw, ids)
    st["open_ports"] = tuple(sorted(map(str, n.software_manager.port_protocol_mapping)))
    st["sessions"] = dump(n.session_manager.sessions_by_key, ids)
    fs = n.file_system
    st["file_system"] = (H.fs_canon(fs), tuple(
        (fo.name, tuple((f.name, f.sim_size, str(f.file_type), f.deleted) for f in fo.files.values())) for fo in fs.folders.values()))
    return st


def _diff(ref, got):
    names = sorted(set(ref) | set(got))
    return [k for k in names if ref.get(k) != got.get(k)]


def _first_diff(a, b, path=""):
    """A short human-readable location of the first difference between two nested tuples."""
    if type(a) is type(b) and isinstance(a, tuple):
        if len(a) != len(b):
            extra = [x for x in b if x not in a][:2]
            gone = [x for x in a if x not in b][:2]
            return "%s: %d -> %d items; new %s; gone %s" % (path or ".", len(a), len(b), _short(extra), _short(gone))
        for i, (x, y) in enumerate(zip(a, b)):
            if x != y:
                tag = x[0] if isinstance(x, tuple) and x and isinstance(x[0], str) and len(x) == 2 else i
                return _first_diff(x, y, "%s/%s" % (path, tag))
    return "%s: %s -> %s" % (path or ".", _short(a), _short(b))


def _short(x, n=160):
    s = repr(x)
    return s if len(s) <= n else s[:n] + "..."


# ----------------------------------------------------------------------------------------------- monitor (oracle 2)
_MON = None
_INSTALLED = False


class Mon:
    def __init__(self):
        self.acl_owner = {}   # id(acl) -> (node, list name)
        self.denied = {}      # id(frame) -> (frame, node, list name)   (the frame is kept alive: ids are not reused)
        self.stack = []       # receive_frame calls in progress on routers/firewalls
        self.viols = []
        self.victim = None
        self.st = {"verdicts": 0, "denied": 0, "permitted": 0, "mid_frames": 0, "mid_sends": 0, "victim_frames": 0}

    def add(self, sig, detail):
        self.viols.append(violation("denied_frame_not_processed", sig, detail))

    def drain(self):
        v, self.viols = self.viols, []
        seen, out = set(), []
        for x in v:
            if x["signature"] not in seen:
                seen.add(x["signature"])
                out.append(x)
        return out


class _Ctx:
    __slots__ = ("node", "frame", "snap", "verdicts", "denied", "snap_deny")

    def __init__(self, node, frame, snap):
        self.node, self.frame, self.snap = node, frame, snap
        self.verdicts, self.denied, self.snap_deny = [], None, None


def mid_proj(n):
    """Software-visible state of a router/firewall that handling a frame may change (ACL hit counters excluded)."""
    ids = H.Ids()
    arp = n.software_manager.software.get("arp")
    d = {"arp_cache": tuple(sorted((str(ip), e.mac_address, e.network_interface_uuid) for ip, e in arp.arp.items())) if arp else (),
         "sessions": tuple(sorted(map(str, n.session_manager.sessions_by_key))),
         "software": tuple(H.software_canon(sw, ids) for sw in n.software_manager.software.values())}
    usm = n.software_manager.software.get("user-session-manager")
    if usm is not None:
        d["user_sessions"] = (usm.local_session is not None, len(usm.remote_sessions))
    return d


def _fdesc(frame):
    try:
        if frame.tcp:
            p = "tcp/%s" % frame.tcp.dst_port
        elif frame.udp:
            p = "udp/%s" % frame.udp.dst_port
        else:
            p = "icmp"
        return "%s %s->%s %s" % (p, frame.ip.src_ip_address, frame.ip.dst_ip_address, type(frame.payload).__name__)
    except Exception:  # noqa
        return "frame"


def _w_is_permitted(orig):
    def w(self, frame, *a, **k):
        r = orig(self, frame, *a, **k)
        m = _MON
        if m is None:
            return r
        owner = m.acl_owner.get(id(self))
        if owner is None:
            return r
        node, lname = owner
        permitted = bool(r[0])
        m.st["verdicts"] += 1
        m.st["permitted" if permitted else "denied"] += 1
        ctx = next((c for c in reversed(m.stack) if c.node is node and c.frame is frame), None)
        if ctx is not None:
            ctx.verdicts.append((lname, permitted))
        if not permitted:
            m.denied[id(frame)] = (frame, node, lname)
            if ctx is not None:
                now = mid_proj(node)
                if len(ctx.verdicts) == 1 and now != ctx.snap:
                    ch = [f for f in now if now[f] != ctx.snap.get(f)]
                    m.add("%s.%s:state-changed-before-deny-verdict:%s" % (type(node).__name__, lname, "+".join(ch)),
                          "%s %s learned from a frame (%s) before consulting the list that denied it: %s" % (
                              type(node).__name__, node.config.hostname, _fdesc(frame),
                              "; ".join("%s %s" % (f, _first_diff(ctx.snap.get(f), now[f])) for f in ch)))
                ctx.denied, ctx.snap_deny = lname, now
        return r

    w._c06_orig = orig
    return w


def _w_mid_receive(orig):
    def w(self, frame, from_network_interface, *a, **k):
        m = _MON
        if m is None or not any(o[0] is self for o in m.acl_owner.values()):
            return orig(self, frame, from_network_interface, *a, **k)
        m.st["mid_frames"] += 1
        ctx = _Ctx(self, frame, mid_proj(self))
        m.stack.append(ctx)
        try:
            return orig(self, frame, from_network_interface, *a, **k)
        finally:
            m.stack.pop()
            if ctx.denied is not None:
                post = mid_proj(self)
                if post != ctx.snap_deny:
                    ch = [f for f in post if post[f] != ctx.snap_deny.get(f)]
                    m.add("%s.%s:state-changed-after-deny:%s" % (type(self).__name__, ctx.denied, "+".join(ch)),
                          "%s %s denied a frame (%s) by %s and changed afterwards: %s" % (
                              type(self).__name__, self.config.hostname, _fdesc(frame), ctx.denied,
                              "; ".join("%s %s" % (f, _first_diff(ctx.snap_deny.get(f), post[f])) for f in ch)))

    w._c06_orig = orig
    return w


def _w_send(orig):
    def w(self, frame, *a, **k):
        m = _MON
        if m is not None:
            d = m.denied.get(id(frame))
            node = getattr(self, "_connected_node", None)
            if d is not None and d[0] is frame and d[1] is node:
                m.add("%s.%s:forwarded-after-deny" % (type(node).__name__, d[2]),
                      "%s %s called send_frame on port %s with a frame (%s) that its list %s had denied" % (
                          type(node).__name__, node.config.hostname, self.port_num, _fdesc(frame), d[2]))
            if node is not None and any(o[0] is node for o in m.acl_owner.values()):
                m.st["mid_sends"] += 1
        return orig(self, frame, *a, **k)

    w._c06_orig = orig
    return w


def _w_nic_receive(orig):
    def w(self, frame, *a, **k):
        r = orig(self, frame, *a, **k)
        m = _MON
        if m is not None and r and getattr(self, "_connected_node", None) is m.victim:
            m.st["victim_frames"] += 1  # a frame was accepted by the victim's interface
        return r

    w._c06_orig = orig
    return w


def _w_sm_receive(orig):
    def w(self, frame, from_network_interface, *a, **k):
        m = _MON
        if m is not None:
            d = m.denied.get(id(frame))
            if d is not None and d[0] is frame and d[1] is getattr(self, "node", None):
                m.add("%s.%s:handed-to-session-manager-after-deny" % (type(d[1]).__name__, d[2]),
                      "%s %s passed a frame (%s) that its list %s had denied to its session manager" % (
                          type(d[1]).__name__, d[1].config.hostname, _fdesc(frame), d[2]))
        return orig(self, frame, from_network_interface, *a, **k)

    w._c06_orig = orig
    return w


def _w_swm_receive(orig):
    def w(self, *a, **k):
        m = _MON
        frame = k.get("frame", a[5] if len(a) > 5 else None)
        if m is not None and frame is not None:
            d = m.denied.get(id(frame))
            if d is not None and d[0] is frame and d[1] is getattr(self, "node", None):
                m.add("%s.%s:handed-to-software-after-deny" % (type(d[1]).__name__, d[2]),
                      "%s %s passed the payload of a frame (%s) that its list %s had denied to its software" % (
                          type(d[1]).__name__, d[1].config.hostname, _fdesc(frame), d[2]))
        return orig(self, *a, **k)

    w._c06_orig = orig
    return w


def install_monitors():
    """Class-level wrappers (process-local, nothing in /repo); they only forward while no monitor is active."""
    global _INSTALLED
    if _INSTALLED:
        return

    def wrap(cls, name, maker):
        if name in cls.__dict__:
            orig = cls.__dict__[name]
            setattr(cls, name, maker(getattr(orig, "_c06_orig", orig)))

    wrap(AccessControlList, "is_permitted", _w_is_permitted)
    for cls in (Router, Firewall):
        wrap(cls, "receive_frame", _w_mid_receive)
    for cls in (WiredNetworkInterface, RouterInterface, NIC, SwitchPort):
        wrap(cls, "send_frame", _w_send)
    wrap(NIC, "receive_frame", _w_nic_receive)
    wrap(SessionManager, "receive_frame", _w_sm_receive)
    wrap(SoftwareManager, "receive_payload_from_session_manager", _w_swm_receive)
    _INSTALLED = True


# ----------------------------------------------------------------------------------------------- topologies
class Sut:
    pass


class WarmUpFailed(Exception):
    """The baseline connectivity of a configuration is broken (not a verdict about C06: nothing can be said about a block
    when the attacker cannot reach the victim without it)."""


def _install(node, *classes):
    for c in classes:
        node.software_manager.install(c)


def _setup_victim(b, role, a_ip):
    _install(b, DatabaseService, FTPServer, WebServer)
    b.file_system.create_file(file_name="secret.txt", folder_name="docs", size=100)
    b.software_manager.software["user-manager"].add_user("bob", "bobpw")
    if role == "bA":
        _install(b, C2Server)
        b.software_manager.software["c2-server"].run()
    else:
        _install(b, RansomwareScript, C2Beacon)
        b.software_manager.software["c2-beacon"].configure(c2_server_ip_address=IPv4Address(a_ip), keep_alive_frequency=2)


def _setup_attacker(a, role, b_ip):
    # dos-bot is a database-client subclass on the same port: installed first so that database-client owns the port
    _install(a, DoSBot, DatabaseClient, DataManipulationBot, RansomwareScript, FTPClient)
    sw = a.software_manager.software
    ip = IPv4Address(b_ip)
    sw["database-client"].configure(server_ip_address=ip)
    sw["database-client"].run()
    sw["data-manipulation-bot"].configure(server_ip_address=ip, payload="DELETE", port_scan_p_of_success=1.0,
                                          data_manipulation_p_of_success=1.0, repeat=True)
    sw["ransomware-script"].configure(server_ip_address=ip, payload="ENCRYPT")
    sw["dos-bot"].configure(target_ip_address=ip, port_scan_p_of_success=1.0, max_sessions=3, repeat=True)
    sw["web-browser"].config.target_url = "http://%s/" % b_ip
    a.file_system.create_file(file_name="loot.txt", folder_name="out", size=100)
    if role == "bA":
        _install(a, C2Beacon)
        sw["c2-beacon"].configure(c2_server_ip_address=ip, keep_alive_frequency=2)
    else:
        _install(a, C2Server)
        sw["c2-server"].run()


def _permit_all(acl, position):
    acl.add_rule(action=ACLAction.PERMIT, position=position)


ROUTES = {
    # route-table contents that must not matter for directly connected destinations (the next hops are unused addresses)
    "def-ext": ("default", "10.0.1.254"),     # default route, next hop on the external side (T2: on the attacker's side)
    "def-dmz": ("default", "10.0.3.254"),     # default route, next hop on the dmz side
    "cover-ext": ("10.0.0.0/8", "10.0.1.254"),  # static route covering every connected subnet, via the external side
}


def _add_routes(m, kind):
    if not kind:
        return
    what, hop = ROUTES[kind]
    if what == "default":
        m.route_table.set_default_route_next_hop_ip_address(IPv4Address(hop))
    else:
        m.route_table.add_route(address="10.0.0.0", subnet_mask="255.0.0.0", next_hop_ip_address=hop)


def build(cfg):
    """cfg = {"topo": "T1"|"T2"|"T3:<zoneA>><zoneB>"|"T4:<zoneA>", "role", "placement": "cold"|"warm", "block": [...],
    optional "routes": a key of ROUTES (extra route-table content on the router/firewall of T2/T3)}."""
    seams.reset()
    install_monitors()
    # malicious-network-event capture on (class-level switch, process-local): the victim's NIC counts attack payloads it receives
    NetworkInterface.nmne_config = NMNEConfig(capture_nmne=True, nmne_capture_keywords=["DELETE", "ENCRYPT", "CORRUPT"])
    topo, role, block = cfg["topo"], cfg["role"], list(cfg["block"])
    omit = block[1] if block[0] == "link" and cfg["placement"] == "cold" else None  # a link that was never there
    s = H.SimSut()
    u = Sut()
    u.s, u.cfg, u.c, u.core = s, cfg, None, None
    if topo == "T1":
        u.a_ip, u.b_ip, u.a_net = "10.0.0.2", "10.0.0.3", "10.0.0.0"
        a = H.host("computer", "a", u.a_ip)
        b = H.host("server", "b", u.b_ip)
        m = H.switch("m", num_ports=2)
        u.port_a, u.port_b = 1, 2
        for n in (a, b, m):
            s.net.add_node(n)
    elif topo == "T2":
        u.a_ip, u.b_ip, u.a_net = "10.0.1.2", "10.0.2.2", "10.0.1.0"
        a = H.host("computer", "a", u.a_ip, gw="10.0.1.1")
        b = H.host("server", "b", u.b_ip, gw="10.0.2.1")
        m = H.router("m", {1: ("10.0.1.1", "255.255.255.0"), 2: ("10.0.2.1", "255.255.255.0")})
        _add_routes(m, cfg.get("routes"))
        u.port_a, u.port_b = 1, 2
        for n in (a, b, m):
            s.net.add_node(n)
    elif topo.startswith("T3:"):
        za, zb = topo[3:].split(">")
        zc = next(z for z in ZONES if z not in (za, zb))
        u.za, u.zb = za, zb
        u.a_ip, u.b_ip = ZONES[za][0], ZONES[zb][0]
        u.a_net = u.a_ip.rsplit(".", 1)[0] + ".0"
        a = H.host("computer", "a", u.a_ip, gw=ZONES[za][1])
        b = H.host("server", "b", u.b_ip, gw=ZONES[zb][1])
        c = H.host("computer", "c", ZONES[zc][0], gw=ZONES[zc][1])
        m = Firewall.from_config({"type": "firewall", "hostname": "m", "start_up_duration": 0, "shut_down_duration": 0,
                                  "ports": {"external_port": {"ip_address": ZONES["ext"][1]},
                                            "internal_port": {"ip_address": ZONES["int"][1]},
                                            "dmz_port": {"ip_address": ZONES["dmz"][1]}}})
        for ln in FW_LISTS:
            _permit_all(getattr(m, ln + "_acl"), 1)
        _add_routes(m, cfg.get("routes"))
        u.port_a, u.port_b = ZONES[za][2], ZONES[zb][2]
        u.c = c
        for n in (a, b, c, m):
            s.net.add_node(n)
        H.connect(s, c, 1, m, ZONES[zc][2], name="c")
    elif topo.startswith("T4:"):
        # firewall (external / internal / dmz) + a core router behind the internal port + the victim in the subnet behind that
        # router (static routes both ways); the attacker sits in the dmz or outside
        za = topo[3:]
        u.za, u.zb = za, "core"
        u.a_ip, u.b_ip = ZONES[za][0], "10.0.4.2"
        u.a_net = u.a_ip.rsplit(".", 1)[0] + ".0"
        a = H.host("computer", "a", u.a_ip, gw=ZONES[za][1])
        b = H.host("server", "b", u.b_ip, gw="10.0.4.1")
        core = H.router("core", {1: ("10.0.2.2", "255.255.255.0"), 2: ("10.0.4.1", "255.255.255.0")})
        m = Firewall.from_config({"type": "firewall", "hostname": "m", "start_up_duration": 0, "shut_down_duration": 0,
                                  "ports": {"external_port": {"ip_address": ZONES["ext"][1]},
                                            "internal_port": {"ip_address": ZONES["int"][1]},
                                            "dmz_port": {"ip_address": ZONES["dmz"][1]}}})
        for ln in FW_LISTS:
            _permit_all(getattr(m, ln + "_acl"), 1)
        m.route_table.add_route(address="10.0.4.0", subnet_mask="255.255.255.0", next_hop_ip_address="10.0.2.2")
        core.route_table.set_default_route_next_hop_ip_address(IPv4Address("10.0.2.1"))
        u.port_a, u.port_b = ZONES[za][2], 2
        u.core = core
        for n in (a, b, core, m):
            s.net.add_node(n)
        H.connect(s, m, 2, core, 1, name="core")
        H.connect(s, a, 1, m, u.port_a, name="a")
        H.connect(s, b, 1, core, 2, name="b")
        for p_ in core.network_interface:
            core.enable_port(p_)
        omit = "both"  # the access links are in place
    else:
        raise ValueError(topo)
    if omit not in ("a", "both"):
        H.connect(s, a, 1, m, u.port_a, name="a")
    if omit not in ("b", "both"):
        H.connect(s, b, 1, m, u.port_b, name="b")
    for n in (a, b, m):
        s.nodes[n.config.hostname] = n
    if isinstance(m, Router):
        for p in m.network_interface:
            m.enable_port(p)
    u.a, u.b, u.m = a, b, m
    u.gw_ip = str(a.config.default_gateway) if getattr(a.config, "default_gateway", None) else None
    _setup_victim(b, role, u.a_ip)
    _setup_attacker(a, role, u.b_ip)
    mon = Mon()
    if isinstance(m, Firewall):
        for ln in FW_LISTS:
            mon.acl_owner[id(getattr(m, ln + "_acl"))] = (m, ln)
    elif isinstance(m, Router):
        mon.acl_owner[id(m.acl)] = (m, "acl")
    if getattr(u, "core", None) is not None:
        mon.acl_owner[id(u.core.acl)] = (u.core, "acl")
    mon.victim = b
    u.mon = mon
    u.warm = []
    u.eos = ()
    s.start()
    return u


# ----------------------------------------------------------------------------------------------- events on the attacker
def _request(u, k):
    b_ip = u.b_ip
    if k == "dbc":
        return ["application", "database-client", "execute"]
    if k == "dmb":
        return ["application", "data-manipulation-bot", "execute"]
    if k == "rsw":
        return ["application", "ransomware-script", "execute"]
    if k == "dos":
        return ["application", "dos-bot", "execute"]
    if k == "web":
        return ["application", "web-browser", "execute"]
    if k == "nmap_ping":
        return ["application", "nmap", "ping_scan", {"target_ip_address": b_ip, "show": False}]
    if k == "nmap_port":
        return ["application", "nmap", "port_scan", {"target_ip_address": b_ip, "target_port": [21, 22, 80, 5432],
                                                     "target_protocol": "tcp", "show": False}]
    if k == "ftp":
        return ["service", "ftp-client", "send", {"dest_ip_address": b_ip, "src_folder_name": "out", "src_file_name": "loot.txt",
                                                  "dest_folder_name": "in", "dest_file_name": "loot.txt"}]
    if k == "login":
        return ["service", "terminal", "node_session_remote_login", "admin", "admin", b_ip]
    if k == "rcmd":
        return ["service", "terminal", "send_remote_command", b_ip, {"command": ["file_system", "create", "folder", "pwned"]}]
    if k == "logoff":
        return ["service", "terminal", "remote_logoff", b_ip]
    if k == "c2b_exec":
        return ["application", "c2-beacon", "execute"]
    if k == "c2b_conf":
        return ["application", "c2-beacon", "configure", {"c2_server_ip_address": b_ip, "keep_alive_frequency": 3,
                                                          "masquerade_protocol": "tcp", "masquerade_port": 80}]
    if k == "c2s_term":
        return ["application", "c2-server", "terminal_command", {"commands": [["file_system", "create", "folder", "c2pwn"]],
                                                                 "ip_address": None, "username": "admin", "password": "admin"}]
    if k == "c2s_rconf":
        return ["application", "c2-server", "ransomware_configure", {"server_ip_address": "10.9.9.9", "payload": "CORRUPT"}]
    raise engine.HarnessError("unknown event %r" % (k,))


def do_event(u, ev):
    """One attacker event on the real objects.  Returns (outcome, raised)."""
    global _MON
    k = ev[0]
    _MON = u.mon
    try:
        if k == "tick":
            s = u.s
            s.sim.apply_timestep(s.t)
            u.eos = nic_counters(u.b)
            s.t += 1
            s.sim.pre_timestep(s.t)
            return "tick", False
        if k == "ping":
            return bool(u.a.ping(u.b_ip, pings=1)), False
        r = u.s.node_req("a", _request(u, k))
        return r.status, False
    except engine.HarnessError:
        raise
    except Exception as e:  # noqa - not a clause of this property; recorded as the outcome
        del u.mon.stack[:]
        return "raised:%s" % type(e).__name__, True
    finally:
        _MON = None


# ----------------------------------------------------------------------------------------------- warm-up and blocks
def warm_up(u):
    """The attacker pings the victim, opens a database connection, a remote terminal session and a C2 session; one tick."""
    global _MON
    res = []
    gw = []
    if u.gw_ip is not None:
        # the attacker first talks to the router/firewall itself (ICMP and an SSH login to its terminal): the device then holds
        # sessions with the attacker for the very protocols of the later attacks
        _MON = u.mon
        try:
            gw.append(bool(u.a.ping(u.gw_ip, pings=1)))
            gw.append(u.s.node_req("a", ["service", "terminal", "node_session_remote_login", "admin", "admin", u.gw_ip]).status)
        finally:
            _MON = None
        keys = [str(k_) for k_ in u.m.session_manager.sessions_by_key]
        gw.append(sorted(k_ for k_ in keys if "icmp" in k_ or " 22," in k_))
    for k in ("ping", "dbc", "login"):
        out, _ = do_event(u, [k])
        res.append([k, out])
    if u.cfg["role"] == "bA":
        out, _ = do_event(u, ["c2b_exec"])
    else:
        _MON = u.mon
        try:
            out = u.s.node_req("b", ["application", "c2-beacon", "execute"]).status
        finally:
            _MON = None
    res.append(["c2", out])
    c2 = u.b.software_manager.software["c2-server" if u.cfg["role"] == "bA" else "c2-beacon"]
    res.append(["c2_active", bool(c2.c2_connection_active)])
    res.append(["db_connections", len(u.b.software_manager.software["database-service"]._connections)])
    res.append(["remote_sessions", len(u.b.software_manager.software["user-session-manager"].remote_sessions)])
    do_event(u, ["tick"])
    u.warm = res + [["gateway_ping_login_sessions", gw]]
    if gw and not (gw[0] is True and gw[1] == "success" and len(gw[2]) >= 2):
        raise WarmUpFailed("with the gateway: %r" % (gw,))
    ok = res[0][1] is True and res[1][1] == "success" and res[2][1] == "success" and res[3][1] == "success" and res[4][1] and \
        res[5][1] >= 1 and res[6][1] >= 1
    if not ok:
        raise WarmUpFailed(repr(res))


def _acl_path(u, lname):
    if lname == "acl":
        return ["acl"]
    zone, direction = lname.split("_")
    return [zone, direction, "acl"]


def _rule(action, proto="ALL", src="ALL", srcwc="NONE", sport="ALL", dst="ALL", dstwc="NONE", dport="ALL", pos=0):
    return ["add_rule", action, proto, src, srcwc, sport, dst, dstwc, dport, pos]


def block_requests(u, block):
    """The requests (target hostname, tail) that put the block in place; [] if it is applied through the Python API."""
    kind = block[0]
    if kind == "none":
        return []
    if kind == "acl":
        lname, shape = block[1], block[2]
        p = _acl_path(u, lname)
        if shape == "any":
            rules = [_rule("DENY")]
        elif shape == "src":
            rules = [_rule("DENY", src=u.a_ip)]
        elif shape == "dst":
            rules = [_rule("DENY", dst=u.b_ip)]
        elif shape == "srcwc":
            rules = [_rule("DENY", src=u.a_net, srcwc="0.0.0.255")]
        elif shape == "srcself":
            rules = [_rule("DENY", src=u.a_ip, srcwc="0.0.0.255")]
        elif shape == "dstself":
            rules = [_rule("DENY", dst=u.b_ip, dstwc="0.0.0.255")]
        elif shape == "implicit":
            # the list keeps only permits that match none of the attacker's traffic: everything else meets the implicit deny
            if lname == "acl":
                rules = [["remove_rule", 21], ["remove_rule", 23]]  # permit-all and the default ICMP permit; ARP (22) stays
            else:
                rules = [["remove_rule", 1]]
            rules += [_rule("PERMIT", proto="tcp", src="10.9.9.9", pos=0), _rule("PERMIT", proto="udp", dport=123, pos=2)]
        elif shape == "icmp":
            rules = [_rule("DENY", proto="icmp")]
        elif shape == "tcp":
            rules = [_rule("DENY", proto="tcp")]
        elif shape == "tcp5432":
            rules = [_rule("DENY", proto="tcp", dport=5432)]
        elif shape == "udp":
            rules = [_rule("DENY", proto="udp")]
        else:
            raise engine.HarnessError("unknown shape %r" % shape)
        return [("m", p + r) for r in rules]
    if kind == "nic":
        return [(block[1], ["network_interface", 1, "disable"])]
    if kind == "port":
        return [("m", ["network_interface", u.port_a if block[1] == "a" else u.port_b, "disable"])]
    if kind == "off":
        return [(block[1], ["shutdown"])]
    if kind == "link":
        return []
    raise engine.HarnessError("unknown block %r" % (block,))


def apply_block(u):
    block = list(u.cfg["block"])
    for host, tail in block_requests(u, block):
        r = u.s.node_req(host, tail)
        if r.status != "success":
            raise engine.HarnessError("block request %r on %s answered %r" % (tail, host, r.status))
    if block[0] == "link" and u.cfg["placement"] == "warm":
        u.s.net.remove_link(u.s.links[block[1]])  # no request exists for unplugging a cable
    if block[0] == "off":
        n = u.s.nodes[block[1]]
        if n.operating_state.name != "OFF":
            raise engine.HarnessError("node %s is %s after shutdown" % (block[1], n.operating_state.name))


def prepare(cfg):
    u = build(cfg)
    if cfg["placement"] == "warm":
        warm_up(u)
    apply_block(u)
    return u


def is_full_block(cfg):
    b = cfg["block"]
    return b[0] != "none" and not (b[0] == "acl" and b[2] in PARTIAL_SHAPES)


def block_kind(cfg):
    b = cfg["block"]
    dev = {"T1": "switch", "T2": "router"}.get(cfg["topo"], "firewall+core-router" if cfg["topo"].startswith("T4") else "firewall")
    if cfg.get("routes"):
        dev += "[routes:%s]" % cfg["routes"]
    if b[0] == "acl":
        return "%s-acl:%s:%s" % (dev, b[1], b[2])
    if b[0] == "port":
        return "%s-port:%s-side" % (dev, b[1])
    if b[0] == "off":
        return "off:%s" % ("victim" if b[1] == "b" else dev)
    if b[0] == "nic":
        return "nic:%s" % ("attacker" if b[1] == "a" else "victim")
    if b[0] == "link":
        return "link:%s-side:%s" % (b[1], "never-connected" if cfg["placement"] == "cold" else "removed")
    return b[0]


def block_mech(cfg):
    """Coarser than block_kind: device + mechanism (+ which list), without the rule shape."""
    b = cfg["block"]
    k = block_kind(cfg)
    if cfg.get("routes"):
        k = k.replace("[routes:%s]" % cfg["routes"], "[extra-routes]")  # which route is in the detail, not in the signature
    if b[0] == "acl":
        return k.rsplit(":", 1)[0]
    if b[0] == "link":
        return k.rsplit(":", 1)[0]
    return k


# ----------------------------------------------------------------------------------------------- tree exploration
class Agg:
    """Picklable statistics of a subtree."""

    def __init__(self):
        self.nodes = 0
        self.transitions = 0
        self.compared = 0
        self.skipped = 0
        self.raised = {}
        self.hist = {}
        self.outcomes = set()
        self.viols = []
        self.nsig = {}
        self.effects = {}
        self.capped = False
        self.deepest = None
        self.mon = {}
        self.levels = {}

    def merge(self, o):
        self.nodes += o.nodes
        self.transitions += o.transitions
        self.compared += o.compared
        self.skipped += o.skipped
        for d, e in ((self.raised, o.raised), (self.hist, o.hist), (self.mon, o.mon), (self.levels, o.levels)):
            for k, n in e.items():
                d[k] = d.get(k, 0) + n
        for k, n in o.effects.items():
            self.effects[k] = self.effects.get(k, False) or n
        self.outcomes |= o.outcomes
        for v in o.viols:
            self._keep(v)
        for k, n in o.nsig.items():
            self.nsig[k] = self.nsig.get(k, 0) + n
        self.capped = self.capped or o.capped
        if o.deepest is not None and (self.deepest is None or len(o.deepest) > len(self.deepest)):
            self.deepest = o.deepest

    def add_viol(self, v):
        k = (v["clause"], v["signature"])
        self.nsig[k] = self.nsig.get(k, 0) + 1
        self._keep(v)

    def _keep(self, v):
        """Keep the KEEP shortest histories of a signature (the tree is walked depth-first)."""
        k = (v["clause"], v["signature"])
        same = [x for x in self.viols if (x["clause"], x["signature"]) == k]
        if len(same) < KEEP:
            self.viols.append(v)
            return
        worst = max(same, key=lambda x: len(x.get("history") or []))
        if len(v.get("history") or []) < len(worst.get("history") or []):
            self.viols[self.viols.index(worst)] = v


def _ticks(hist):
    return sum(1 for e in hist if e[0] == "tick")


def reference_states(u, horizon):
    """Victim states after 0..horizon idle ticks (None from the first tick that raises on); runs in a forked child."""
    out = [(victim_state(u), u.mon.st["victim_frames"])]
    mv = []
    for _ in range(horizon):
        o, raised = do_event(u, ["tick"])
        mv += u.mon.drain()
        if raised:
            out += [None] * (horizon - len(out) + 1)
            break
        out.append((victim_state(u), u.mon.st["victim_frames"]))
    return out, mv, dict(u.mon.st)


def judge(u, ref, hist, ev, outcome, raised, phase):
    """Oracle 1 on the live objects after ``hist + [ev]`` (phase 'event') or after the settle ticks (phase 'settle')."""
    cfg = u.cfg
    n = _ticks(hist + [ev]) + (SETTLE if phase == "settle" else 0)
    want = ref[n] if n < len(ref) else None
    if want is None:
        return None, []
    want, want_frames = want
    got = victim_state(u)
    ch = _diff(want, got)
    if not ch:
        return False, []
    frames = u.mon.st["victim_frames"] - want_frames
    if frames > 0:
        # the defect is in the network path (which device/mechanism let frames through), not in the attack that found it
        sig = "%s|frames-reached-victim" % block_mech(cfg)
    else:
        # no frame crossed: the side channel is in the software the event runs, whatever the block mechanism
        gen = sorted(c for c in ch if c != "node_canon") or ch
        sig = "no-frame-reached-victim|%s|%s" % (ev[0], "+".join(gen))
    detail = "victim %s differs from the run in which the attacker idles for the same %d tick(s), after %s%s under block %s " \
             "[%s] (%s, role %s, %s); %d frame(s) more than in the idle run were accepted by the victim's interface; changed: %s" % (
                 u.b_ip, n, [e[0] for e in hist + [ev]], " + %d settle ticks" % SETTLE if phase == "settle" else "",
                 cfg["block"], block_kind(cfg), cfg["topo"], cfg["role"], cfg["placement"], frames,
                 "; ".join("%s %s" % (c, _first_diff(want.get(c), got.get(c))) for c in ch[:4]))
    clause = "non_interference" if phase == "event" else "non_interference_after_settle"
    return True, [violation(clause, sig, detail)]


def _annot(viols, cfg, hist, ev):
    for v in viols:
        v.update(history=[list(e) for e in hist], event=list(ev) if ev is not None else None, adapter=ADAPTER,
                 params={"cfg": cfg})
    return viols


def step(u, ref, hist, ev, agg, control):
    """Apply one event in this process, run both oracles. Returns True if the search may continue beneath."""
    cfg = u.cfg
    before = dict(u.mon.st)
    outcome, raised = do_event(u, ev)
    lab = ev[0]
    agg.nodes += 1
    agg.transitions += 1
    agg.levels[len(hist) + 1] = agg.levels.get(len(hist) + 1, 0) + 1
    agg.hist[lab] = agg.hist.get(lab, 0) + 1
    agg.outcomes.add(engine.digest((lab, outcome)))
    for k, n in u.mon.st.items():
        agg.mon[k] = agg.mon.get(k, 0) + n - before.get(k, 0)
    viols = u.mon.drain()
    if raised:
        agg.raised["%s:%s" % (lab, outcome)] = agg.raised.get("%s:%s" % (lab, outcome), 0) + 1
    go_on = True
    if raised and lab == "tick":
        agg.skipped += 1  # the step was aborted half-way: no verdict, nothing explored beneath
        go_on = False
    elif is_full_block(cfg) or control:
        differs, v = judge(u, ref, hist, ev, outcome, raised, "event")
        if differs is None:
            agg.skipped += 1
        else:
            agg.compared += 1
            if control:
                agg.effects[lab] = agg.effects.get(lab, False) or differs
            else:
                viols += v
    _annot(viols, cfg, hist, ev)
    for v in viols:
        agg.add_viol(v)
    if viols:
        go_on = False  # like engine.bfs: nothing is explored beneath a violating transition
    return go_on


def settle(u, ref, hist, agg, control):
    """Oracle after SETTLE more idle ticks; consumes the live objects of this process."""
    if not hist or not (is_full_block(u.cfg) or control):
        return
    for _ in range(SETTLE):
        o, raised = do_event(u, ["tick"])
        agg.transitions += 1
        if raised:
            agg.skipped += 1
            return
    viols = u.mon.drain()
    differs, v = judge(u, ref, hist[:-1], hist[-1], None, False, "settle")
    if differs is None:
        agg.skipped += 1
    else:
        agg.compared += 1
        if control:
            agg.effects[hist[-1][0]] = agg.effects.get(hist[-1][0], False) or differs
        else:
            viols += v
    _annot(viols, u.cfg, hist[:-1], hist[-1])
    for x in viols:
        agg.add_viol(x)


def subtree(u, ref, hist, depth, menu, control, t_end):
    """Everything beneath the state this process is in (= after ``hist``)."""
    agg = Agg()
    if len(hist) < depth:
        if time.time() > t_end:
            agg.capped = True
        else:
            def child(ev):
                gc.disable()  # short-lived snapshot: a collection would only copy pages
                a = Agg()
                if step(u, ref, hist, ev, a, control):
                    a.merge(subtree(u, ref, hist + [ev], depth, menu, control, t_end))
                return a

            for _, a in engine.fork_each(menu, child):
                agg.merge(a)
    if hist and (agg.deepest is None or len(hist) > len(agg.deepest)):
        agg.deepest = [list(e) for e in hist]
    settle(u, ref, hist, agg, control)
    return agg


def explore(item):
    """pmap worker: one configuration, all attack sequences up to the depth."""
    cfg, depth, t_end = item
    t0 = time.time()
    control = cfg["block"][0] == "none"
    try:
        u = prepare(cfg)
    except WarmUpFailed as e:
        if control and not cfg.get("routes"):
            raise engine.HarnessError("warm-up failed in the plain control configuration %r: %s" % (cfg, e))
        return {"warm_failed": str(e), "wall": round(time.time() - t0, 2)}
    prep_viols = _annot(u.mon.drain(), cfg, [], None)
    horizon = depth + SETTLE
    (ref, ref_viols, _), = [r for _, r in engine.fork_each([0], lambda _: reference_states(u, horizon))]
    agg = Agg()
    agg.nodes = 1
    for v in prep_viols + _annot(ref_viols, cfg, [], ["tick"]):
        agg.add_viol(v)
    agg.transitions += horizon
    agg.merge(subtree(u, ref, [], depth, menu_for(cfg["role"]), control, t_end))
    return {"nodes": agg.nodes, "transitions": agg.transitions, "compared": agg.compared, "skipped": agg.skipped,
            "raised": agg.raised, "hist": agg.hist, "outcomes": sorted(agg.outcomes), "viols": agg.viols,
            "nsig": {"%s / %s" % k: n for k, n in agg.nsig.items()}, "effects": agg.effects, "capped": agg.capped,
            "deepest": agg.deepest, "mon": agg.mon, "levels": {str(k): n for k, n in sorted(agg.levels.items())}, "warm": u.warm, "ref_raises": sum(1 for r in ref if r is None),
            "wall": round(time.time() - t0, 2)}


# ----------------------------------------------------------------------------------------------- linear replay
def run_linear(cfg, history, event):
    """Re-run one history without forking (two builds: the idle reference and the attack). Returns (violations, digest)."""
    events = [list(e) for e in history] + ([list(event)] if event is not None else [])
    horizon = _ticks(events) + SETTLE
    ref, ref_viols, _ = reference_states(prepare(cfg), horizon)
    u = prepare(cfg)
    control = cfg["block"][0] == "none"
    out = _annot(u.mon.drain(), cfg, [], None)
    if event is None:
        return out + _annot(ref_viols, cfg, [], ["tick"]), engine.digest(victim_state(u))
    agg = Agg()
    hist = []
    for ev in events[:-1]:
        step(u, ref, hist, ev, Agg(), control)
        hist.append(ev)
    ok = step(u, ref, hist, events[-1], agg, control)
    dg = engine.digest((victim_state(u), sorted(agg.outcomes)))
    if ok:
        settle(u, ref, events, agg, control)
    return out + agg.viols, dg


def _leak_sig(v, shape=False, warm_only=False, plain=False):
    """Forms of a 'frames-reached-victim' signature under an ACL block (see refine_signatures); None for other violations.
    ``plain``: without the tag of the extra route-table content."""
    cfg = (v.get("params") or {}).get("cfg") or {}
    b = cfg.get("block") or [None]
    mech = block_mech(cfg) if b[0] == "acl" else None
    if mech is None or not v["signature"].endswith("|frames-reached-victim") or not v["signature"].startswith(mech):
        return None
    if plain:
        mech = block_mech({k: x for k, x in cfg.items() if k != "routes"})
    return "%s%s%s|frames-reached-victim" % (mech, ":" + b[2] if shape else "", ":after-warm-up-only" if warm_only else "")


def refine_signatures(viols, tested):
    """A leak through an ACL/firewall list that shows under EVERY rule shape tested on that list in that topology is one
    defect of the forwarding path (signature without the shape); a leak that shows only under some of the shapes is a defect
    of those shapes (e.g. a wildcard range that does not match): the shape becomes part of the signature. Likewise a leak that
    shows only after the warm-up although the cold placement was tested depends on what the device learned/holds from the
    warm-up (sessions, ARP): ':after-warm-up-only'. A leak on a device with extra route-table content carries the tag
    '[extra-routes]' unless the same list leaks under the same shape without that content too (then it is that defect)."""
    leaking = {}
    for v in viols:
        base = _leak_sig(v)
        if base:
            c = v["params"]["cfg"]
            d = leaking.setdefault((c["topo"], base), (set(), set()))
            d[0].add(c["block"][2])
            d[1].add(c["placement"])
    flags = {}
    for k, (shapes, pls) in leaking.items():
        t_shapes, t_pls = tested.get(k, (set(), set()))
        flags[k] = (shapes != t_shapes, pls == {"warm"} and "cold" in t_pls)
    for v in viols:
        base = _leak_sig(v)
        if not base:
            continue
        c = v["params"]["cfg"]
        k = (c["topo"], base)
        kp = (c["topo"], _leak_sig(v, plain=True))
        if c.get("routes") and kp in leaking and c["block"][2] in leaking[kp][0]:
            v["signature"] = _leak_sig(v, flags[kp][0], flags[kp][1], plain=True)
        else:
            v["signature"] = _leak_sig(v, flags[k][0], flags[k][1])
    return viols


def replay(doc):
    viols = run_linear(doc["params"]["cfg"], doc.get("history") or [], doc.get("event"))[0]
    for v in viols:
        forms = [_leak_sig(v, a, b, c) for a in (False, True) for b in (False, True) for c in (False, True)]
        if doc.get("signature") in forms:
            v["signature"] = doc["signature"]
    return viols


def _det_check(item):
    cfg, hist = item
    return run_linear(cfg, hist[:-1], hist[-1])[1]


# ----------------------------------------------------------------------------------------------- the product
COMMON_BLOCKS = [["nic", "a"], ["nic", "b"], ["port", "a"], ["port", "b"], ["link", "a"], ["link", "b"], ["off", "b"], ["off", "m"]]
ALL_PLACEMENTS = [("cold", "bA"), ("cold", "sA"), ("warm", "bA"), ("warm", "sA")]
# before any traffic the C2 server on the attacker has no beacon to command (its two events are inert): the quick tier
# runs the cold placement with the beacon on the attacker only
QUICK_PLACEMENTS = [("cold", "bA"), ("warm", "bA"), ("warm", "sA")]


def fw_lists(za, zb):
    """The two firewall lists on the path from zone za to zone zb."""
    first = "external_inbound" if za == "ext" else ZONES[za][3] + "_outbound"
    second = "external_outbound" if zb == "ext" else ZONES[zb][3] + "_inbound"
    return [first, second]


def core_configs(placements):
    """T1 + T2 + T3 with the attacker outside and the victim inside: every mechanism and rule shape; the other five
    T3 placements: an any-any deny in each of their two lists (warm, beacon on the attacker)."""
    out = []

    def add(topo, block, pls=placements):
        for pl, role in pls:
            out.append({"topo": topo, "role": role, "placement": pl, "block": list(block)})

    for b in COMMON_BLOCKS:
        add("T1", b)
    for sh in FULL_SHAPES:
        add("T2", ["acl", "acl", sh])
    for b in COMMON_BLOCKS:
        add("T2", b)
    for sh in PARTIAL_SHAPES:
        add("T2", ["acl", "acl", sh], [("warm", "bA")])
    main = "T3:ext>int"
    for ln in fw_lists("ext", "int"):
        for sh in FULL_SHAPES:
            if sh == "implicit" and ln.startswith("external"):
                continue  # the external lists' implicit action is PERMIT
            add(main, ["acl", ln, sh])
        for sh in ("tcp", "icmp"):
            add(main, ["acl", ln, sh], [("warm", "bA")])
    for b in (["port", "a"], ["port", "b"], ["off", "m"]):
        add(main, b)
    for za in ZONES:
        for zb in ZONES:
            if za != zb and (za, zb) != ("ext", "int"):
                for ln in fw_lists(za, zb):
                    add("T3:%s>%s" % (za, zb), ["acl", ln, "any"], [("warm", "bA")])
    # T4 (victim behind a core router behind the internal port): deny rules of every shape at the top of internal-inbound,
    # attacker in the dmz; attacker outside: three shapes
    for sh in FULL_SHAPES:
        add("T4:dmz", ["acl", "internal_inbound", sh], [("cold", "bA"), ("warm", "sA")])
    for sh in ("any", "dstself", "implicit"):
        add("T4:ext", ["acl", "internal_inbound", sh], [("warm", "bA")])
    out += routed_configs(False)
    return out


ROUTE_SHAPES = ["any", "dstself", "implicit"]


def routed_configs(wide):
    """T3/T2 with route-table content on the firewall/router that must not matter for directly connected destinations: a
    default route via the external or the dmz side, a covering static route via the external side."""
    out = []

    def add(topo, routes, block, pls):
        for pl, role in pls:
            out.append({"topo": topo, "role": role, "placement": pl, "block": list(block), "routes": routes})

    two = [("cold", "bA"), ("warm", "sA")]
    for routes in ROUTES:  # attacker in the dmz, victim directly on the internal LAN, block in internal-inbound
        for sh in ROUTE_SHAPES:
            add("T3:dmz>int", routes, ["acl", "internal_inbound", sh], ALL_PLACEMENTS if wide else two)
    others = [(za, zb) for za in ZONES for zb in ZONES if za != zb and (za, zb) != ("dmz", "int")]
    for za, zb in others:
        for routes in (ROUTES if wide else ["def-ext"]):
            for ln in (fw_lists(za, zb) if wide else fw_lists(za, zb)[1:]):
                for sh in (ROUTE_SHAPES if wide else ["any"]):
                    if sh == "implicit" and ln.startswith("external"):
                        continue
                    if not wide and (za, zb) not in (("ext", "int"), ("int", "dmz"), ("ext", "dmz")):
                        continue
                    add("T3:%s>%s" % (za, zb), routes, ["acl", ln, sh], two if wide else [("warm", "bA")])
    if wide:
        for routes in ROUTES:
            add("T3:dmz>int", routes, ["acl", "dmz_outbound", "any"], two)
    for routes in ("def-ext", "cover-ext"):  # plain router: the routes point away from the victim
        for sh in (ROUTE_SHAPES if wide else ["any", "dstself"]):
            add("T2", routes, ["acl", "acl", sh], two if wide else [("warm", "bA")])
    return out


def wide_configs():
    """Every T3 placement x both lists x every shape (full and partial) x every interface/link/power block, all four
    (block placement, role) combinations; plus T1/T2 in all four combinations."""
    out = []

    def add(topo, block):
        for pl, role in ALL_PLACEMENTS:
            out.append({"topo": topo, "role": role, "placement": pl, "block": list(block)})

    for b in COMMON_BLOCKS:
        add("T1", b)
        add("T2", b)
    for sh in FULL_SHAPES + PARTIAL_SHAPES:
        add("T2", ["acl", "acl", sh])
    for za in ZONES:
        for zb in ZONES:
            if za == zb:
                continue
            topo = "T3:%s>%s" % (za, zb)
            for ln in fw_lists(za, zb):
                for sh in FULL_SHAPES + PARTIAL_SHAPES:
                    if sh == "implicit" and ln.startswith("external"):
                        continue
                    add(topo, ["acl", ln, sh])
            for b in COMMON_BLOCKS:
                add(topo, b)
    for za in ("dmz", "ext"):
        for ln in ("internal_inbound", "dmz_outbound" if za == "dmz" else "external_inbound"):
            for sh in FULL_SHAPES + PARTIAL_SHAPES:
                if sh == "implicit" and ln.startswith("external"):
                    continue
                add("T4:%s" % za, ["acl", ln, sh])
    out += routed_configs(True)
    return out


def control_configs():
    """No block: the vacuity witnesses (which events change the victim at all) and oracle 2 on permitted traffic."""
    out = []
    for topo in ("T1", "T2", "T3:ext>int"):
        for role in ("bA", "sA"):
            out.append({"topo": topo, "role": role, "placement": "warm", "block": ["none"]})
    out.append({"topo": "T2", "role": "bA", "placement": "cold", "block": ["none"]})
    out.append({"topo": "T3:dmz>ext", "role": "bA", "placement": "warm", "block": ["none"]})
    out.append({"topo": "T3:int>dmz", "role": "sA", "placement": "warm", "block": ["none"]})
    out.append({"topo": "T4:dmz", "role": "bA", "placement": "warm", "block": ["none"]})
    out.append({"topo": "T4:ext", "role": "sA", "placement": "warm", "block": ["none"]})
    out.append({"topo": "T3:dmz>int", "role": "bA", "placement": "warm", "block": ["none"], "routes": "def-ext"})
    out.append({"topo": "T3:dmz>int", "role": "sA", "placement": "warm", "block": ["none"], "routes": "cover-ext"})
    return out


def plan(tier):
    """[(cfg, depth)]: quick = core at depth 2; thorough = core (all four placement/role combinations on T1/T2/T3-main) at
    depth 3 + the wide product at depth 2."""
    key = lambda c: engine.digest(c)  # noqa: E731
    if tier != "thorough":
        items = [(c, 2) for c in control_configs()] + [(c, 2) for c in core_configs(QUICK_PLACEMENTS)]
    else:
        core = core_configs(ALL_PLACEMENTS)
        deep = [c for c in core if not c.get("routes")]  # the routed variants stay at depth 2 (the thorough tier adds breadth there)
        have = {key(c) for c in deep}
        items = [(c, 2) for c in control_configs()] + [(c, 3) for c in deep]
        for c in wide_configs() + [c for c in core if c.get("routes")]:
            if key(c) not in have:
                have.add(key(c))
                items.append((c, 2))
    return items


def run(tier, is_known):
    t0 = time.time()
    thorough = tier == "thorough"
    depth = 3 if thorough else 2
    budget = 1620.0 if thorough else 600.0
    t_end = t0 + budget
    # breadth before depth (should the time budget be hit, it cuts the deepest trees, not whole configurations); within one
    # depth the most expensive (warm) configurations first
    items = [(c, d, t_end) for c, d in sorted(plan(tier), key=lambda cd: (cd[0]["block"][0] != "none", cd[1], cd[0]["placement"] != "warm"))]
    tot = {"nodes": 0, "transitions": 0, "compared": 0, "skipped": 0}
    hist, raised, mon, effects, nsig, levels = {}, {}, {}, {}, {}, {}
    outcomes = set()
    viols, per, samples = [], [], []
    capped = False
    det_items = []
    warm_seen = {}
    warm_failed = []
    for (cfg, d, _), r in engine.pmap("c06-explore", explore, items):
        if "warm_failed" in r:
            # without the block the attacker cannot reach the victim in this configuration: nothing to check (and not exhaustive)
            warm_failed.append({"cfg": cfg, "warm_up": r["warm_failed"]})
            continue
        for k in tot:
            tot[k] += r[k]
        for dst, src in ((hist, r["hist"]), (raised, r["raised"]), (mon, r["mon"]), (nsig, r["nsig"])):
            for k, n in src.items():
                dst[k] = dst.get(k, 0) + n
        outcomes |= set(r["outcomes"])
        capped = capped or r["capped"]
        viols += r["viols"]
        control = cfg["block"][0] == "none"
        if control:
            for k, e in r["effects"].items():
                effects[k] = effects.get(k, False) or e
        if cfg["placement"] == "warm":
            warm_seen.setdefault("%s/%s" % (cfg["topo"], cfg["role"]), r["warm"])
        for k, n in r["levels"].items():
            levels[k] = levels.get(k, 0) + n
        per.append({"cfg": cfg, "depth": d, "depth_completed": d if not r["capped"] else "partial", "level_sizes": r["levels"],
                    "histories": r["nodes"], "transitions": r["transitions"], "compared": r["compared"],
                    "skipped": r["skipped"], "violating_transitions": sum(r["nsig"].values()), "capped": r["capped"],
                    "denied_verdicts": r["mon"].get("denied", 0), "permitted_verdicts": r["mon"].get("permitted", 0),
                    "reference_ticks_raising": r["ref_raises"], "wall_s": r["wall"]})
        if r["deepest"] and len(samples) < 3 and not control:
            samples.append({"cfg": cfg, "history": r["deepest"]})
        if r["deepest"] and len(r["deepest"]) >= 2:
            det_items.append((cfg, r["deepest"]))
    # determinism self-check + cross-check of the forked tree against the fork-free linear replay
    det_items.sort(key=lambda it: engine.digest(it))
    picks = det_items[:: max(1, len(det_items) // 8)][:8]
    d1 = dict((engine.digest(it), dg) for it, dg in engine.pmap("c06-det", _det_check, picks))
    d2 = dict((engine.digest(it), dg) for it, dg in engine.pmap("c06-det", _det_check, list(reversed(picks))))
    if d1 != d2:
        raise engine.HarnessError("determinism self-check failed (linear replays differ)")
    menu_labels = sorted({e[0] for role in MENU_ROLE for e in menu_for(role)} - {"tick"})
    ineffective = [k for k in menu_labels if not effects.get(k)]
    full = [p for p in per if is_full_block(p["cfg"])]
    partial = [p for p in per if p["cfg"]["block"][0] == "acl" and p["cfg"]["block"][2] in PARTIAL_SHAPES]
    exhaustive = not capped and not warm_failed
    cov = {
        "states": tot["nodes"], "transitions": tot["transitions"],
        "traces_validated_against_impl": tot["compared"] + mon.get("verdicts", 0),
        "samples": samples or [{"history": []}],
        "exhaustive": exhaustive,
        "explanation": "states = attack histories executed (tree nodes; histories are not merged by canonical state). For every "
                       "configuration of the product every sequence over the alphabet up to the depth was executed on real objects; "
                       "oracle 1 compared the victim's deep state with the idle reference after every event and after %d settle "
                       "ticks; oracle 2 watched every ACL verdict of the router/firewall" % SETTLE,
        "depth": depth, "configurations_by_depth": {str(d): sum(1 for p in per if p["depth"] == d) for d in sorted({p["depth"] for p in per})},
        "settle_ticks": SETTLE, "alphabet": {r: [e[0] for e in menu_for(r)] for r in MENU_ROLE},
        "configurations": len(per), "full_block_configurations": len(full), "partial_block_configurations": len(partial),
        "control_configurations": len(per) - len(full) - len(partial),
        "differential_comparisons": tot["compared"], "comparisons_skipped_after_exception": tot["skipped"],
        "acl_verdicts_monitored": mon.get("verdicts", 0), "acl_denied": mon.get("denied", 0), "acl_permitted": mon.get("permitted", 0),
        "frames_through_router_or_firewall": mon.get("mid_frames", 0), "frames_sent_by_router_or_firewall": mon.get("mid_sends", 0),
        "event_histogram": hist, "distinct_outcomes": len(outcomes),
        "histories_by_length": {k: levels[k] for k in sorted(levels)}, "merged_by_canon": 0,
        "merging": "none: every history is executed (a tree, not a graph); nothing is pruned except beneath a violating transition "
                   "and beneath a tick that raised",
        "exceptions_escaping_the_code_under_check": raised,
        "events_changing_the_victim_without_block": {k: bool(effects.get(k)) for k in menu_labels},
        "ineffective_events": ineffective,
        "warm_up_results": warm_seen,
        "determinism_replays": len(picks),
        "configurations_skipped_because_the_warm_up_failed": warm_failed,
        "caps": {"time_budget_s": budget, "hit": capped},
        "violations_by_clause_signature": nsig, "violations_kept_per_signature_and_configuration": KEEP,
        "block_kinds": sorted({block_kind(p["cfg"]) for p in per}),
        "harnesses": per,
    }
    tested = {}
    for p_ in per:
        c_ = p_["cfg"]
        if c_["block"][0] == "acl" and is_full_block(c_):
            t_ = tested.setdefault((c_["topo"], "%s|frames-reached-victim" % block_mech(c_)), (set(), set()))
            t_[0].add(c_["block"][2])
            t_[1].add(c_["placement"])
    refine_signatures(viols, tested)
    nsig_final = {}
    for v in viols:
        k_ = "%s / %s" % (v["clause"], v["signature"])
        nsig_final[k_] = nsig_final.get(k_, 0) + 1
    cov["violation_signatures_after_shape_refinement"] = sorted(nsig_final)
    if ineffective:
        raise engine.HarnessError("vacuous alphabet: %s never changed the victim in the unblocked control runs" % ineffective)
    # shortest histories first, so that the replay file of a signature holds a minimal history
    order = [e[0] for e in MENU_COMMON + MENU_ROLE["bA"] + MENU_ROLE["sA"]]
    viols.sort(key=lambda v: (len(v.get("history") or []), [order.index(e[0]) for e in (v.get("history") or []) + [v.get("event") or ["tick"]]],
                              v["signature"]))
    return {
        "violations": viols, "coverage": cov, "level": "model_checking",
        "assumptions": [
            "the attacker acts through Simulation.apply_request on its own node (application execute/configure, nmap scans, ftp "
            "send, terminal remote login / remote command / logoff, C2 server commands) and Node.ping(pings=1); it does not "
            "reconfigure the network (enabling an interface or editing an ACL would remove the block) and it does not pivot "
            "through the terminal of the router/firewall (the warm-up logs in to that terminal before the block, so that the "
            "device holds sessions with the attacker, but never sends it a command)",
            "'A idle' = the same build, warm-up, block and number of ticks with no request on the attacker; the attacker's software "
            "still runs its apply_timestep (C2 keep-alives) in both runs",
            "block = one mechanism at a time, applied through the request API (ACL add/remove rule, network_interface disable, node "
            "shutdown with shut_down_duration 0); a missing link is a link that was never connected (cold) or Network.remove_link "
            "(warm; no request exists)",
            "the C2 suite's two halves cannot share a node, so the arrangement is enumerated: beacon on the attacker/server on the "
            "victim, and server on the attacker/beacon+ransomware-script on the victim; stochastic bots run with p_of_success 1.0; "
            "dos-bot max_sessions 3; C2 keep-alive frequency 2",
            "implicit-deny shape: the permit-all rule (and on the router the default ICMP permit) is removed and two permits that "
            "match none of the attacker's traffic are added; the router's default ARP permit stays (ARP is exempt from its ACL anyway)",
            "oracle 2 reads 'decided to deny' per list: what a firewall learns from a frame after its first list permitted it and "
            "before its second list denies it is not counted; nothing may be learned before a first verdict that is deny, and "
            "nothing at all may happen to the frame after any deny verdict (ACL hit counters excepted)",
            "an exception escaping an event is recorded as its outcome; the victim is still compared after it, except after a tick "
            "that raised (the step was aborted half-way, in either run) — those comparisons are counted as skipped",
            "no database backup target on the victim; pcap/sys_log output is not state",
        ],
        "summary": "configs=%d histories=%d transitions=%d comparisons=%d acl-verdicts=%d (denied %d) signatures=%d wall=%.0fs%s" % (
            len(per), tot["nodes"], tot["transitions"], tot["compared"], mon.get("verdicts", 0), mon.get("denied", 0), len(nsig),
            time.time() - t0, "" if exhaustive else (" (%d configurations skipped: warm-up failed)" % len(warm_failed) if warm_failed
                                                     else " (capped)")),
    }
