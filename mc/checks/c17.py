"""C17 — database: password-gated connections, connection-gated queries, restorable data.

Explicit-state BFS over real DatabaseClient / DatabaseService / FTPClient / FTPServer objects on real nodes inside a
real Simulation, with a small reference model of the database (issued connection handles, stored-file health, health of
the latest backup) stepped in lock-step on every transition.

Harnesses (all real objects, nothing mocked):
``lan``     d1, d2 (database-client), db (database-service, password set, max_sessions 2, ftp-client), bk (ftp-server) on
            one switch; "path blocked" = the server's NIC disabled;
``routed``  the same four hosts on four ports of one router; "path blocked" = deny rules added to / removed from the
            router's ACL through the request API (d1<->db, db<->bk).
Alphabets (``focus``): ``conn`` connection life cycle under service / power / path events, ``data`` damage, backup and
restore on one connection, ``mix`` a reduced union used on the routed topology.

Every call of DatabaseService.backup_database / restore_backup (explicit events, the automatic backup of timestep 1 and
the restore at the end of a fix) is observed through a recording wrapper installed on the class in this process only.
"""
from __future__ import annotations

import time

from .. import common, engine
from .. import harness_sim as H
from ..engine import violation

common.import_sim()

from primaite.simulator.network.hardware.node_operating_state import NodeOperatingState  # noqa: E402
from primaite.simulator.system.applications.database_client import DatabaseClient  # noqa: E402
from primaite.simulator.system.services.database.database_service import DatabaseService  # noqa: E402
from primaite.simulator.system.services.ftp.ftp_server import FTPServer  # noqa: E402

PROP = "C17"
LIVENESS_NOTES = {}
RIGHT = "pw-right"
WRONG = "pw-wrong"
FORGED_ID = "00000000-0000-4000-8000-00000000c017"  # well-formed, never issued by any server
GARBAGE = "DROP TABLE users"
CLIENTS = ("d1", "d2")
GOOD, COMPROMISED, CORRUPT = "GOOD", "COMPROMISED", "CORRUPT"
BANDWIDTH = 100000.0  # Mbps: database.db is 5 MB (40 Mbit) per transfer; link capacity (C18) must not interfere here

# ------------------------------------------------------------------------------------------------ call recorder
_CUR = {"sut": None}
_ORIG = {"backup": DatabaseService.backup_database, "restore": DatabaseService.restore_backup}


def _recording(kind):
    orig = _ORIG[kind]

    def wrapper(self):
        s = _CUR["sut"]
        if s is None or self is not s.svc:
            return orig(self)
        pre = s.ad.env(s)
        before = s.ad.file_health(s)
        r = orig(self)
        s.calls.append((kind, pre, before, bool(r), s.ad.file_health(s)))
        return r

    wrapper.__name__ = orig.__name__
    wrapper.__doc__ = orig.__doc__
    return wrapper


DatabaseService.backup_database = _recording("backup")
DatabaseService.restore_backup = _recording("restore")


class Handle:
    """The k-th connection ever issued in this history (symbolic: events name k, never the uuid)."""

    def __init__(self, owner, obj, native):
        self.owner = owner
        self.obj = obj
        self.cid = obj.connection_id
        self.native = native
        self.srv_open = True   # reference model: the server issued it and has not closed it
        self.cli_open = True   # reference model: the owning client still holds it


class DbAdapter(engine.Adapter):
    # engine option: build + replay once per state, then apply every menu event in a forked copy of the process
    # (a sound snapshot of the live objects); ignored by an engine that does not know it
    fork_expand = True

    def __init__(self, topo="lan", focus="conn", max_sessions=2, power=(0, 0), max_handles=3, fixing_duration=1):
        self.topo = topo
        self.focus = focus
        self.max_sessions = int(max_sessions)
        self.power = tuple(power)
        self.max_handles = int(max_handles)
        self.fixing_duration = int(fixing_duration)
        self.name = "c17-%s-%s-m%d-p%d%d-f%d" % (topo, focus, self.max_sessions, self.power[0], self.power[1], self.fixing_duration)

    def params(self):
        return {"topo": self.topo, "focus": self.focus, "max_sessions": self.max_sessions, "power": list(self.power),
                "max_handles": self.max_handles, "fixing_duration": self.fixing_duration}

    # ------------------------------------------------------------------------------------------------ build
    def build(self):
        if self.topo == "lan":
            s = H.lan([("computer", "d1", "10.0.0.2"), ("computer", "d2", "10.0.0.3"), ("server", "db", "10.0.0.4"),
                       ("server", "bk", "10.0.0.5")], bandwidth=BANDWIDTH)
            s.ip = {"d1": "10.0.0.2", "d2": "10.0.0.3", "db": "10.0.0.4", "bk": "10.0.0.5"}
            s.router = None
        else:
            s = H.SimSut()
            s.ip = {"d1": "10.0.1.2", "d2": "10.0.2.2", "db": "10.0.3.2", "bk": "10.0.4.2"}
            r = H.router("r", {i + 1: ("10.0.%d.1" % (i + 1), "255.255.255.0") for i in range(4)})
            for i, (kind, name) in enumerate((("computer", "d1"), ("computer", "d2"), ("server", "db"), ("server", "bk"))):
                n = H.host(kind, name, s.ip[name], gw="10.0.%d.1" % (i + 1))
                H.connect(s, n, 1, r, i + 1, bandwidth=BANDWIDTH)
                r.enable_port(i + 1)
            s.router = r
        s.ad = self
        s.db = s.nodes["db"]
        s.bk = s.nodes["bk"]
        for c in CLIENTS:
            sm = s.nodes[c].software_manager
            sm.install(DatabaseClient, DatabaseClient.ConfigSchema(db_server_ip=s.ip["db"], server_password=RIGHT))
            sm.software["database-client"].run()
        s.db.software_manager.install(
            DatabaseService, DatabaseService.ConfigSchema(db_password=RIGHT, backup_server_ip=s.ip["bk"],
                                                          fixing_duration=self.fixing_duration))
        s.svc = s.db.software_manager.software["database-service"]
        s.svc.max_sessions = self.max_sessions
        s.bk.software_manager.install(FTPServer)
        for n in ("db", "bk"):
            s.nodes[n].config.start_up_duration = self.power[0]
            s.nodes[n].config.shut_down_duration = self.power[1]
        # reference model + harness bookkeeping
        s.handles = []
        s.installed = {c: True for c in CLIENTS}
        s.pw = {c: "right" for c in CLIENTS}
        s.m_file = GOOD        # model: health of database.db
        s.m_backup = None      # model: health the data had when the latest successful backup was taken
        s.restores_ok = 0      # successful restores so far (signature only)
        s.backups_ok = 0
        s.blocked = set()
        s.calls = []
        s.start()
        if self.focus == "data":
            # the data alphabet starts from one open connection of d1 (part of the initial state)
            _CUR["sut"] = s
            obj = self.client(s, "d1").get_new_connection()
            if obj is None:
                raise engine.HarnessError("initial connection of the data harness was refused")
            s.handles.append(Handle("d1", obj, False))
        return s

    def client(self, s, c):
        return s.nodes[c].software_manager.software.get("database-client")

    # ------------------------------------------------------------------------------------------------ environment
    def file_health(self, s):
        f = s.svc.db_file
        return f.health_status.name if f is not None else "MISSING"

    def env(self, s):
        """What the property's side conditions are right now, read from the real objects (inputs of the model)."""
        node_on = s.db.operating_state == NodeOperatingState.ON
        svc_state = s.svc.operating_state.name
        e = {"node": s.db.operating_state.name, "service": svc_state, "health": s.svc.health_state_actual.name,
             "up": node_on and svc_state == "RUNNING"}
        db_nic = s.db.network_interface[1].enabled
        r_ok = True
        if s.router is not None:
            r_ok = s.router.operating_state == NodeOperatingState.ON and all(
                p.enabled for p in s.router.network_interface.values())
        for c in CLIENTS:
            n = s.nodes[c]
            cl = self.client(s, c)
            e["client_ok:" + c] = bool(cl is not None and n.operating_state == NodeOperatingState.ON
                                       and cl.operating_state.name == "RUNNING")
            e["path:" + c] = bool(db_nic and r_ok and n.network_interface[1].enabled and ("acl:" + c) not in s.blocked)
        ftpc = s.db.software_manager.software.get("ftp-client")
        ftps = s.bk.software_manager.software.get("ftp-server")
        e["bk_path"] = bool(db_nic and r_ok and s.bk.network_interface[1].enabled and "acl:bk" not in s.blocked
                            and s.bk.operating_state == NodeOperatingState.ON
                            and ftps is not None and ftps.operating_state.name == "RUNNING"
                            and ftpc is not None and ftpc.operating_state.name == "RUNNING")
        return e

    @staticmethod
    def gate(e, c):
        """Name of the first side condition that forbids client ``c`` to reach the service, or None."""
        if e["node"] != "ON":
            return "node=" + e["node"]
        if e["service"] != "RUNNING":
            return "service=" + e["service"]
        if not e["path:" + c]:
            return "path=blocked"
        if not e["client_ok:" + c]:
            return "client=unusable"
        return None

    def srv_open_ids(self, s):
        return {h.cid for h in s.handles if h.srv_open}

    # ------------------------------------------------------------------------------------------------ menu
    def sender(self, s, h):
        if s.installed[h.owner]:
            return h.owner
        other = [c for c in CLIENTS if c != h.owner and s.installed[c]]
        return other[0] if other else None

    def menu(self, s):
        f = self.focus
        m = [("tick",)]
        room = len(s.handles) < self.max_handles
        if f == "conn":
            clients, pws, sqls, forged_sqls = CLIENTS, ("right", "wrong", "none"), ("SELECT", "DELETE"), ("SELECT", "DELETE")
            svc = ("stop", "start", "pause", "resume", "restart", "fix")
        elif f == "core":
            clients, pws, sqls, forged_sqls = CLIENTS, ("right", "wrong", "none"), ("DELETE",), ("DELETE",)
            svc = ("stop", "start")
        elif f == "data":
            clients, pws, sqls, forged_sqls = (), (), ("SELECT", "INSERT", "DELETE", "ENCRYPT", GARBAGE), ()
            svc = ("fix", "stop", "start")
        else:
            clients, pws, sqls, forged_sqls = CLIENTS, ("right",), ("SELECT", "DELETE"), ("DELETE",)
            svc = ()
        for c in clients:
            if s.installed[c] and room:
                for pw in (pws if (f != "core" or c == "d1") else ("right",)):
                    m.append(("connect", c, pw))
        if f == "conn":
            for c in clients:
                if s.installed[c]:
                    m.append(("execute", c))
        for k, h in enumerate(s.handles):
            if self.sender(s, h) is None:
                continue
            for q in sqls:
                m.append(("query", k, q))
            if f != "data" and s.installed[h.owner]:
                m.append(("disconnect", k))
        for q in forged_sqls:
            c = next((c for c in CLIENTS if s.installed[c]), None)
            if c:
                m.append(("forged", c, q))
        if f in ("conn", "mix", "core"):
            for c in (clients if f == "conn" else ("d1",)):
                if s.installed[c]:
                    m.append(("uninstall", c))
        for v in svc:
            m.append(("svc", v))
        if f in ("data", "mix"):
            m += [("backup",), ("restore",)]
        if f == "data":
            m.append(("repair",))
        if f != "mix":
            m += [("power", "db", "off"), ("power", "db", "on")]
        if f == "data":
            m += [("power", "bk", "off"), ("power", "bk", "on")]
        if self.topo == "lan":
            if f == "conn":
                m += [("nic", "db", "off"), ("nic", "db", "on")]
        else:
            m += [("acl", "d1", "on"), ("acl", "d1", "off")]
            if f in ("data", "mix"):
                m += [("acl", "bk", "on"), ("acl", "bk", "off")]
        return m

    def label(self, ev):
        if ev[0] in ("svc", "power", "nic", "acl"):
            return "%s:%s" % (ev[0], ":".join(map(str, ev[1:])))
        if ev[0] == "connect":
            return "connect:" + ev[2]
        if ev[0] in ("query", "forged"):
            return "%s:%s" % (ev[0], ev[2] if ev[2] != GARBAGE else "garbage")
        return ev[0]

    # ------------------------------------------------------------------------------------------------ apply
    def apply(self, s, ev):
        _CUR["sut"] = s
        s.calls = []
        ev = tuple(ev)
        k = ev[0]
        e = self.env(s)
        conns_before = set(s.svc.connections)
        file_before = self.file_health(s)
        viols = []
        synced_file = False
        if k == "connect":
            outcome = self._connect(s, ev, e, viols)
        elif k == "execute":
            outcome = self._execute(s, ev, e, viols)
        elif k in ("query", "forged"):
            outcome, synced_file = self._query(s, ev, e, viols)
        elif k == "disconnect":
            h = s.handles[ev[1]]
            h.obj.disconnect()
            self._model_client_close(s, h, e)
            outcome = "sent" if not h.cli_open else "kept"
        elif k == "uninstall":
            c = ev[1]
            resp = s.node_req(c, ["software_manager", "application", "uninstall", "database-client"])
            if resp.status != "success" or self.client(s, c) is not None:
                raise engine.HarnessError("uninstall of the database client on %s answered %r" % (c, resp))
            for h in s.handles:
                if h.owner == c:
                    self._model_client_close(s, h, e, force=True)
            s.installed[c] = False
            outcome = "uninstalled"
        elif k == "svc":
            outcome = s.node_req("db", ["service", "database-service", ev[1]]).status
        elif k == "backup":
            outcome = bool(s.svc.backup_database())
        elif k == "restore":
            outcome = bool(s.svc.restore_backup())
        elif k == "repair":
            outcome = s.node_req("db", ["file_system", "folder", "database", "file", "database.db", "repair"]).status
            s.m_file = self.file_health(s)  # file repair belongs to the file system: its effect is an input here
            synced_file = True
        elif k == "power":
            outcome = s.node_req(ev[1], ["shutdown" if ev[2] == "off" else "startup"]).status
        elif k == "nic":
            outcome = s.node_req(ev[1], ["network_interface", 1, "disable" if ev[2] == "off" else "enable"]).status
        elif k == "acl":
            outcome = self._acl(s, ev)
        elif k == "tick":
            s.tick()
            outcome = "tick"
        else:
            raise ValueError(ev)
        # backup / restore calls made during this event (explicit, timestep-1 backup, end-of-fix restore)
        call_out = []
        for kind, pre, before, ret, after in s.calls:
            call_out.append([kind, ret, after])
            if kind == "backup":
                if ret:
                    s.m_backup = s.m_file
                    s.backups_ok += 1
            else:
                viols += self._restore_oracle(s, k, pre, before, ret, after)
        s.calls = []
        if call_out:
            outcome = [outcome, call_out]
        # ---- invariants: the server-side state equals the reference model after every transition
        real = set(s.svc.connections)
        want = self.srv_open_ids(s)
        if real != want and not any(v["clause"].startswith("connect") for v in viols):
            extra = len(real - want)
            missing = len(want - real)
            if k in ("disconnect", "uninstall"):
                sig = "%s:delivered:server-keeps-connection" % k if extra else "%s:server-lost-other-connection" % k
            elif self._blocked_event(k, ev, e, s):
                sig = "%s:while:%s:connections-changed" % (k, self._blocked_event(k, ev, e, s))
            else:
                sig = "%s:extra=%d:missing=%d" % (self.label(ev), min(extra, 1), min(missing, 1))
            viols.append(violation("server_connections_match_model", sig,
                                   "after %s the service holds %d connection(s) the model does not and lacks %d it does "
                                   "(before: %d live; env %s)" % (list(ev), extra, missing, len(conns_before), _fmt(e))))
        now = self.file_health(s)
        if now != s.m_file and not synced_file and not any(
                v["clause"] in ("restore_of_healthy_backup_gives_good_file", "blocked_no_restore", "query_effect",
                                "query_only_on_live_connection") for v in viols):
            viols.append(violation("file_health_matches_model", "%s:%s->%s" % (self.label(ev), file_before, now),
                                   "after %s database.db is %s, reference model says %s (was %s)" % (
                                       list(ev), now, s.m_file, file_before)))
        return outcome, _dedup(viols)

    def _blocked_event(self, k, ev, e, s):
        if k in ("connect", "execute", "forged"):
            return self.gate(e, ev[1])
        if k == "query":
            c = self.sender(s, s.handles[ev[1]])
            return self.gate(e, c) if c else None
        return None

    # ---- connect -----------------------------------------------------------------------------------------------
    def _set_password(self, s, c, pw):
        cl = self.client(s, c)
        if pw == "none":
            cl.server_password = None  # a client that was never given a password
        else:
            resp = s.node_req(c, ["application", "database-client", "configure",
                                  {"server_password": RIGHT if pw == "right" else WRONG}])
            if resp.status != "success":
                raise engine.HarnessError("configure answered %r" % (resp,))
        s.pw[c] = pw

    def _connect_expect(self, s, c, e):
        """(reason the connection must NOT be opened or None, must it be opened)."""
        g = self.gate(e, c)
        if g:
            return g, False
        if s.pw[c] != "right":
            return "password=" + s.pw[c], False
        if len(self.srv_open_ids(s)) >= self.max_sessions:
            return "at-capacity", False
        return None, True

    def _judge_connect(self, s, c, e, opened, new_ids, viols, via):
        forbid, must = self._connect_expect(s, c, e)
        if forbid and (opened or new_ids):
            viols.append(violation("connect_only_when_allowed", "connect:opened-despite:%s" % forbid,
                                   "%s from %s (password %s) opened a connection (client handle: %s, new server-side "
                                   "connections: %d) although %s; env %s" % (via, c, s.pw[c], opened, len(new_ids), forbid, _fmt(e))))
        # The 'if' direction (a permitted connect must succeed) is NOT a clause of C17 - the statement says "opens a
        # connection only for ..." - so a refusal of a permitted connect is not reported (known instance: after one
        # over-capacity attempt the service stays OVERWHELMED and refuses every later connect). LIVENESS_NOTES counts it.
        if must and not (opened and len(new_ids) == 1):
            LIVENESS_NOTES["permitted_connect_refused"] = LIVENESS_NOTES.get("permitted_connect_refused", 0) + 1

    def _connect(self, s, ev, e, viols):
        c, pw = ev[1], ev[2]
        self._set_password(s, c, pw)
        before = set(s.svc.connections)
        obj = self.client(s, c).get_new_connection()
        new_ids = set(s.svc.connections) - before
        self._judge_connect(s, c, e, obj is not None, new_ids, viols, "connect")
        if obj is not None:
            if obj.connection_id not in new_ids and not viols:
                viols.append(violation("connect_only_when_allowed", "connect:handle-not-issued-by-server",
                                       "the client holds connection id %s which the server did not issue" % obj.connection_id))
            s.handles.append(Handle(c, obj, False))
            return "opened"
        return "refused"

    def _execute(self, s, ev, e, viols):
        c = ev[1]
        cl = self.client(s, c)
        native = next((h for h in s.handles if h.native and h.owner == c and cl.native_connection is h.obj), None)
        before = set(s.svc.connections)
        had_native = cl.native_connection is not None
        resp = s.node_req(c, ["application", "database-client", "execute"])
        ok = resp.status == "success"
        new_ids = set(s.svc.connections) - before
        if not had_native:
            opened = cl.native_connection is not None
            self._judge_connect(s, c, e, opened, new_ids, viols, "execute")
            if opened:
                native = Handle(c, cl.native_connection, True)
                s.handles.append(native)
        elif new_ids:
            viols.append(violation("connect_only_when_allowed", "execute:second-native-connection",
                                   "execute opened %d new server-side connection(s) although a native connection exists" % len(new_ids)))
        # the statement speaks of connections the SERVICE issued and has not closed: a disconnect the client sent while the server
        # could not receive it (server off, path cut) leaves the connection open on the server, and a later execute that re-uses the
        # client's native connection id is then a query on a connection the service still holds (counted, not judged)
        live = native is not None and native.srv_open
        if ok and live and not native.cli_open:
            LIVENESS_NOTES["execute_on_connection_only_the_client_closed"] = LIVENESS_NOTES.get("execute_on_connection_only_the_client_closed", 0) + 1
        g = self.gate(e, c)
        if ok and (g or not live):
            viols.append(violation("query_only_on_live_connection", "execute:success-despite:%s" % (g or "no-live-connection"),
                                   "application execute on %s answered success although %s; env %s" % (
                                       c, g or "the client has no connection the server issued and still holds", _fmt(e))))
        if not ok and live and not g and e["health"] == "GOOD":
            LIVENESS_NOTES["permitted_execute_failed"] = LIVENESS_NOTES.get("permitted_execute_failed", 0) + 1
        return "ok" if ok else "fail"

    # ---- query -------------------------------------------------------------------------------------------------
    def _query(self, s, ev, e, viols):
        sql = ev[2]
        synced = False
        if ev[0] == "forged":
            c, cid, kind, live = ev[1], FORGED_ID, "forged", False
            r = bool(self.client(s, c)._query(sql=sql, connection_id=cid))
        else:
            h = s.handles[ev[1]]
            c = self.sender(s, h)
            live = h.srv_open
            kind = "live" if live else "closed"
            if h.cli_open and c == h.owner:
                r = bool(h.obj.query(sql))
                how = "api"
            else:
                # a closed handle is refused by the client library itself: send the query on its id directly
                r = bool(self.client(s, c)._query(sql=sql, connection_id=h.cid))
                how = "raw" if c == h.owner else "raw-other-client"
            kind += ":" + how
        after = self.file_health(s)
        g = self.gate(e, c)
        sqlname = sql if sql != GARBAGE else "garbage"
        allowed = live and g is None
        if not allowed:
            why = g or ("connection=" + kind)
            if r or after != s.m_file:
                viols.append(violation("query_only_on_live_connection", "query:executed-despite:%s:%s" % (
                    why.split(":")[0] if not g else why, "data-changed" if after != s.m_file else "answered-ok"),
                                       "%s on a %s connection id returned %s and database.db went %s -> %s although %s; env %s" % (
                                           sqlname, kind, r, s.m_file, after, why, _fmt(e))))
            return [r, after], synced
        # the query reached a running service on a connection it issued and has not closed
        if sql == "SELECT" and s.m_file == COMPROMISED and r:
            viols.append(violation("select_fails_on_compromised", "query:SELECT:success:file=COMPROMISED",
                                   "SELECT returned success while database.db is COMPROMISED (service health %s)" % e["health"]))
        if e["health"] != "GOOD":
            # documented convention: a service that is not in GOOD health answers 500 ("service unavailable");
            # the statement is silent: the effect is taken over from the implementation
            s.m_file = after
            return [r, after], True
        want_file = {"DELETE": COMPROMISED, "ENCRYPT": CORRUPT}.get(sql, s.m_file)
        if sql in ("DELETE", "ENCRYPT", "INSERT"):
            want_r = True
        elif sql == "SELECT":
            want_r = {GOOD: True, COMPROMISED: False}.get(s.m_file)  # CORRUPT: answered 200 without data; not judged
        else:
            want_r = None  # unknown statement: only "no effect on the data" is demanded
        if (after != want_file or (want_r is not None and r != want_r)) and not viols:
            viols.append(violation("query_effect", "query:%s:file=%s:got=%s/%s" % (sqlname, s.m_file, r, after),
                                   "%s on a live connection of a healthy running service with database.db %s: expected "
                                   "result %s and file %s, got result %s and file %s" % (sqlname, s.m_file, want_r, want_file, r, after)))
        s.m_file = want_file
        return [r, after], synced

    # ---- disconnect ----------------------------------------------------------------------------------------------
    def _model_client_close(self, s, h, e, force=False):
        """Reference model of DatabaseClientConnection.disconnect / DatabaseClient.uninstall for one handle."""
        if not h.cli_open:
            return
        can = e["client_ok:" + h.owner]
        if can:
            h.cli_open = False
            if e["up"] and e["path:" + h.owner]:
                h.srv_open = False  # the disconnect message is delivered to a running service
        elif force:
            h.cli_open = False

    # ---- ACL -----------------------------------------------------------------------------------------------------
    def _acl(self, s, ev):
        which, on = ev[1], ev[2] == "on"
        a = s.ip["d1"] if which == "d1" else s.ip["bk"]
        b = s.ip["db"]
        base = 1 if which == "d1" else 3
        key = "acl:" + which
        if on == (key in s.blocked):
            return "noop"
        for i, (src, dst) in enumerate(((a, b), (b, a))):
            if on:
                resp = s.node_req("r", ["acl", "add_rule", "DENY", "ALL", src, "NONE", "ALL", dst, "NONE", "ALL", base + i])
            else:
                resp = s.node_req("r", ["acl", "remove_rule", base + i])
            if resp.status != "success":
                raise engine.HarnessError("ACL request answered %r" % (resp,))
        (s.blocked.add if on else s.blocked.discard)(key)
        return "blocked" if on else "unblocked"

    # ---- restore -------------------------------------------------------------------------------------------------
    def _restore_oracle(self, s, k, pre, before, ret, after):
        v = []
        via = "restore_backup()" if k == "restore" else "restore_backup() at the end of a fix"
        block = None
        if pre["node"] != "ON":
            block = "node=" + pre["node"]
        elif pre["service"] != "RUNNING":
            block = "service=" + pre["service"]
        elif not pre["bk_path"]:
            block = "path=blocked"
        if block:
            if ret or after != before:
                v.append(violation("blocked_no_restore", "restore:succeeded-despite:%s" % block,
                                   "%s returned %s and database.db went %s -> %s although %s" % (via, ret, before, after, block)))
            s.m_file = after
            return v
        if s.m_backup == GOOD:
            if after != GOOD or not ret:
                v.append(violation(
                    "restore_of_healthy_backup_gives_good_file",
                    "restore:returned=%s:file-not-good" % ret,
                    via + ": the latest successful backup was taken while database.db was GOOD; the service is RUNNING on an ON node "
                    "and the backup server is reachable; restore_backup returned %s and database.db is %s (was %s); "
                    "successful backups so far %d, successful restores so far %d" % (ret, after, before, s.backups_ok, s.restores_ok)))
            s.m_file = GOOD
        else:
            s.m_file = after  # nothing healthy to restore: not judged
        if ret:
            s.restores_ok += 1
        return v

    # ------------------------------------------------------------------------------------------------ canon
    def canon(self, s):
        ids = H.Ids()
        for h in s.handles:
            ids(h.cid)
        parts = [tuple(H.node_canon(s.nodes[n], ids) for n in ("d1", "d2", "db", "bk"))]
        if s.router is not None:
            parts.append((s.router.operating_state.value, tuple(sorted(s.blocked)),
                          tuple(i for i, r in enumerate(s.router.acl.acl) if r is not None)))
        cl = []
        for c in CLIENTS:
            x = self.client(s, c)
            if x is None:
                cl.append(None)
                continue
            lq = x.last_query_response
            cl.append((x.server_password, x.connected, tuple(sorted(ids(i) for i in x.client_connections)),
                       ids(x.native_connection.connection_id) if x.native_connection else None,
                       bool(x.native_connection.is_active) if x.native_connection else None,
                       lq.get("status_code") if isinstance(lq, dict) else None,
                       tuple(sorted(ids(i) for i in x.connections))))
        parts.append(tuple(cl))
        parts.append(tuple((h.owner, h.native, h.srv_open, h.cli_open, bool(h.obj.is_active)) for h in s.handles))
        parts.append((s.m_file, s.m_backup, min(s.restores_ok, 1), min(s.backups_ok, 1), min(s.t, 2), tuple(sorted(s.pw.items())),
                      tuple(sorted(s.installed.items()))))
        svc = s.svc
        parts.append((str(svc.backup_server_ip), svc.max_sessions, svc.fixing_count,
                      tuple(sorted((ids(k), str(v.get("ip_address"))) for k, v in svc.connections.items()))))
        for n in ("d1", "d2", "db", "bk"):
            sm = s.nodes[n].session_manager
            parts.append(tuple(sorted((str(k[0]), str(k[1]), str(k[2]), str(k[3])) for k in sm.sessions_by_key)))
        # the backup folder on the backup server is named after the service's uuid: normalise it
        return repr(tuple(parts)).replace(str(s.svc.uuid), "<svc-uuid>")

    def check_initial(self, s):
        v = []
        e = self.env(s)
        if not (e["up"] and e["bk_path"] and all(e["path:" + c] and e["client_ok:" + c] for c in CLIENTS)):
            raise engine.HarnessError("harness does not start with everything up: %s" % _fmt(e))
        if set(s.svc.connections) != self.srv_open_ids(s) or self.file_health(s) != GOOD:
            v.append(violation("server_connections_match_model", "initial", "initial state differs from the reference model"))
        return v


def _fmt(e):
    return ",".join("%s=%s" % (k, e[k]) for k in sorted(e) if k not in ("up",))


def _dedup(viols):
    seen = set()
    out = []
    for x in viols:
        kx = (x["clause"], x["signature"])
        if kx not in seen:
            seen.add(kx)
            out.append(x)
    return out


def make_adapter(p):
    return DbAdapter(p.get("topo", "lan"), p.get("focus", "conn"), p.get("max_sessions", 2), tuple(p.get("power", (0, 0))),
                     p.get("max_handles", 3), p.get("fixing_duration", 1))


def replay(doc):
    ad = make_adapter(doc["params"])
    s = ad.build()
    out = list(ad.check_initial(s))
    for ev in doc["history"]:
        ad.apply(s, _tup(ev))
    if doc.get("event") is not None:
        _, v = ad.apply(s, _tup(doc["event"]))
        out += v
    return out


def _tup(ev):
    return tuple(ev)


# Scripted histories run once per check on the unchanged alphabet: they make vacuity visible (the events really collide)
# and record observations that are not judged.  Outcomes are written to the evidence file.
SCENARIOS = [
    ("capacity and passwords (lan)", {"topo": "lan", "focus": "conn"},
     [("connect", "d1", "wrong"), ("connect", "d1", "none"), ("connect", "d1", "right"), ("connect", "d2", "right"),
      ("connect", "d2", "right"), ("query", 0, "SELECT"), ("disconnect", 0), ("query", 0, "DELETE"), ("forged", "d1", "DELETE")]),
    ("service and power gates (lan)", {"topo": "lan", "focus": "conn"},
     [("connect", "d1", "right"), ("svc", "pause"), ("query", 0, "SELECT"), ("connect", "d2", "right"), ("svc", "resume"),
      ("query", 0, "SELECT"), ("power", "db", "off"), ("query", 0, "SELECT"), ("power", "db", "on"), ("query", 0, "SELECT"),
      ("nic", "db", "off"), ("execute", "d2"), ("nic", "db", "on"), ("execute", "d2")]),
    ("damage, backup, restore (lan)", {"topo": "lan", "focus": "data"},
     [("backup",), ("query", 0, "DELETE"), ("query", 0, "SELECT"), ("restore",), ("query", 0, "SELECT"), ("query", 0, "ENCRYPT"),
      ("power", "bk", "off"), ("restore",), ("power", "bk", "on"), ("restore",), ("svc", "fix"), ("tick",)]),
    ("acl blocks (routed)", {"topo": "routed", "focus": "mix"},
     [("connect", "d1", "right"), ("backup",), ("acl", "d1", "on"), ("query", 0, "DELETE"), ("connect", "d1", "right"),
      ("connect", "d2", "right"), ("acl", "d1", "off"), ("query", 0, "DELETE"), ("acl", "bk", "on"), ("restore",),
      ("acl", "bk", "off"), ("restore",)]),
    ("observation: a second backup is refused by the FTP server (not judged)", {"topo": "lan", "focus": "data"},
     [("query", 0, "ENCRYPT"), ("backup",), ("repair",), ("backup",), ("query", 0, "ENCRYPT"), ("restore",)]),
]


def scripted():
    out = []
    for title, params, history in SCENARIOS:
        ad = make_adapter(params)
        s = ad.build()
        steps = []
        for ev in history:
            o, v = ad.apply(s, ev)
            steps.append({"event": list(ev), "outcome": o, "violations": [[x["clause"], x["signature"]] for x in v]})
        out.append({"title": title, "params": ad.params(), "steps": steps})
    return out


def run(tier, is_known):
    t0 = time.time()
    if tier == "thorough":
        plan = [  # topo, focus, max_sessions, power, fixing duration, depth, state budget, time budget
            # (budgets are tested before a level is started: the full 'conn' alphabet goes to depth 5 only on an idle machine)
            ("lan", "conn", 2, (0, 0), 1, 5, 60000, 150),
            ("lan", "core", 2, (0, 0), 1, 7, 60000, 600),
            ("lan", "core", 1, (0, 0), 1, 6, 60000, 600),
            ("lan", "data", 2, (0, 0), 1, 6, 60000, 600),
            ("routed", "mix", 2, (0, 0), 1, 6, 60000, 600),
            ("lan", "core", 2, (1, 1), 1, 6, 60000, 600),
            ("lan", "data", 2, (1, 1), 2, 6, 60000, 600),
            ("lan", "conn", 0, (0, 0), 1, 4, 60000, 300),
        ]
    else:
        plan = [
            ("lan", "core", 1, (0, 0), 1, 4, 30000, 240),
            ("lan", "conn", 2, (0, 0), 1, 3, 30000, 240),
            ("lan", "data", 2, (0, 0), 1, 5, 30000, 240),
            ("routed", "mix", 2, (0, 0), 1, 4, 30000, 240),
            ("lan", "conn", 0, (0, 0), 1, 3, 30000, 240),  # a session limit of 0: always at capacity
        ]
    viols = []
    per = []
    samples = []
    hist = {}
    outcomes = 0
    states = trans = 0
    exhaustive = True
    for topo, focus, ms, power, fixd, depth, budget, tb in plan:
        ad = DbAdapter(topo, focus, ms, power, 3, fixd)
        r = engine.bfs(ad, depth, state_budget=budget, time_budget=tb, is_known=is_known)
        viols += r.violations
        states += r.states
        trans += r.transitions
        outcomes += len(r.outcomes)
        for k, n in r.hist.items():
            hist[k] = hist.get(k, 0) + n
        samples += r.samples[:1]
        exhaustive = exhaustive and r.capped is None and r.max_depth_completed >= depth
        per.append({"adapter": ad.name, "params": ad.params(), "depth_requested": depth, "depth_completed": r.max_depth_completed,
                    "states": r.states, "transitions": r.transitions, "merged_by_canon": r.merged,
                    "pruned_after_violation": r.pruned, "frontier_emptied": r.frontier_emptied, "cap": r.capped,
                    "level_sizes": r.level_sizes, "determinism_replays": r.determinism_checked,
                    "distinct_outcomes": len(r.outcomes)})
    sc = scripted()
    cov = {
        "states": states, "transitions": trans, "traces_validated_against_impl": trans,
        "samples": samples or [{"history": []}], "exhaustive": exhaustive,
        "explanation": "every event sequence up to the completed depth over the stated alphabet was executed on real "
                       "DatabaseClient/DatabaseService/FTP objects on real nodes (states merged by canonical form); the reference "
                       "database model was compared with the implementation on every transition",
        "harnesses": per, "event_histogram": hist, "distinct_outcomes": outcomes, "scripted_scenarios": sc,
    }
    return {
        "violations": viols, "coverage": cov, "level": "model_checking",
        "assumptions": [
            "the property's side conditions (node ON, service RUNNING, NIC/ACL/router state, client usable) are read from the real "
            "objects before each event; the node power FSM and service life cycle themselves belong to other properties",
            "'connection closed' = a disconnect sent by the owning client was delivered to a running service (or the client was "
            "uninstalled while the service was reachable); service stop/restart and node power cycles do not close connections "
            "(the statement does not say they do)",
            "a service whose own health is not GOOD answers queries with 500 (documented): the effect of queries is then not judged, "
            "except that SELECT of COMPROMISED data must still fail",
            "SELECT of a CORRUPT (encrypted) file is answered 200 without data by the implementation; the statement only speaks of "
            "compromised data, so this is not judged",
            "the effect of the file-system 'repair' request on database.db is an input (File.repair only repairs CORRUPT files)",
            "a backup counts as taken when backup_database returns True; a refused second backup is not itself a violation "
            "(see the scripted observation in the coverage)",
            "only the 'only if' directions of the statement are judged: a permitted connect/query that is refused is not a violation of "
            "C17 (e.g. the service stays OVERWHELMED after one over-capacity attempt)",
            "links are given 100 Gbit/s so that link capacity (C18: database.db is 40 Mbit per transfer) never drops a frame",
            "alphabet bounded: two clients, max_sessions 2 (1 in the 'core-m1' harness), at most 3 issued handles per history, "
            "zero power durations except in the thorough (1,1) harnesses; 'path blocked' is bidirectional (NIC disabled or a "
            "pair of deny rules)",
        ],
        "summary": "states=%d transitions=%d harnesses=%d depth=%s wall=%.0fs" % (
            states, trans, len(per), "/".join(str(p["depth_completed"]) for p in per), time.time() - t0),
    }
