"""C10 — reward = weighted sum of components; shared rewards use same-step values; sticky; totals.

(1) exhaustive product: every labelled reward-sharing digraph (self-loops included) on n <= 3 (thorough: 4) agents is
    built into a real PrimaiteGame; cyclic <=> loading raises; for acyclic graphs 4 real game steps are run with action
    scripts that make every agent's own component differ at every step, and every agent's reward is compared with a
    reference recursive evaluation on same-step values; the evaluation order must be dependencies-first.
(2) explicit-state exploration of a GEN member (every shipped reward component, sticky and non-sticky, several weights,
    blue sharing green's reward): after every step every component is recomputed by a reference model from the live
    objects and the agent's own last (action, response); current = sum(w*c); total = sum of step rewards; env reward =
    blue's current reward; history item reward = that step's reward.
"""
from __future__ import annotations

import copy
import itertools
import time

from .. import common, engine, envexplore as EE, harness_env as HE
from ..engine import violation
from . import c01

PROP = "C10"


# ------------------------------------------------------------------------------------------------------------
# (1) sharing graphs
# ------------------------------------------------------------------------------------------------------------
def _graph_cfg(n, edges):
    """n proxy agents a0..a{n-1}; agent i has an action-penalty with distinct values and a shared-reward per out-edge."""
    agents = []
    for i in range(n):
        comps = [{"type": "action-penalty", "weight": 1.0 + i, "options": {"action_penalty": -(3 + i), "do_nothing_penalty": 0.5 + i}},
                 # a component switched off by weight 0 (boundary value) must contribute nothing
                 {"type": "action-penalty", "weight": 0, "options": {"action_penalty": -50.0, "do_nothing_penalty": 70.0}}]
        for (a, b) in edges:
            if a == i:
                comps.append({"type": "shared-reward", "weight": 0.5 + 0.25 * b, "options": {"agent_name": "a%d" % b}})
        agents.append({
            "ref": "a%d" % i, "team": "BLUE", "type": "proxy-agent",
            "action_space": {"action_map": {0: {"action": "do-nothing", "options": {}},
                                            1: {"action": "node-os-scan", "options": {"node_name": "pc"}}}},
            "reward_function": {"reward_components": comps},
        })
    return {
        "game": {"max_episode_length": 16, "ports": ["HTTP"], "protocols": ["TCP"]},
        "agents": agents,
        "simulation": {"network": {"nodes": [{"hostname": "pc", "type": "computer", "ip_address": "10.0.0.2", "subnet_mask": "255.255.255.0"}],
                                   "links": []}},
    }


def _cyclic(n, edges):
    adj = {i: [b for a, b in edges if a == i] for i in range(n)}
    color = {}

    def dfs(u):
        color[u] = 1
        for w in adj[u]:
            if color.get(w) == 1:
                return True
            if color.get(w) is None and dfs(w):
                return True
        color[u] = 2
        return False

    return any(color.get(i) is None and dfs(i) for i in range(n))


def eval_graph(item):
    from primaite.game.game import PrimaiteGame

    n, edges = item
    edges = [tuple(e) for e in edges]
    cyc = _cyclic(n, edges)
    sig_shape = "n=%d:edges=%d:%s" % (n, len(edges), "cyclic" if cyc else "acyclic")
    try:
        game = PrimaiteGame.from_config(_graph_cfg(n, edges))
        raised = None
    except RecursionError as e:
        return 1, [violation("cyclic_sharing_rejected_at_load", "recursion:" + sig_shape, "graph %r: loading recursed: %r" % (edges, e))]
    except Exception as e:  # noqa
        raised = e
    if cyc:
        if raised is None:
            return 1, [violation("cyclic_sharing_rejected_at_load", sig_shape + (":self-loop" if any(a == b for a, b in edges) else ""),
                                 "cyclic sharing graph %r on %d agents was accepted" % (edges, n))]
        return 1, []
    if raised is not None:
        return 1, [violation("acyclic_sharing_accepted", sig_shape, "acyclic graph %r was rejected: %r" % (edges, raised))]
    viols = []
    order = list(game._reward_calculation_order)
    pos = {name: k for k, name in enumerate(order)}
    for a, b in edges:
        if pos["a%d" % b] > pos["a%d" % a]:
            viols.append(violation("dependencies_first_order", sig_shape, "graph %r: evaluation order %r puts a%d after a%d which depends on it" % (
                edges, order, b, a)))
    totals = [0.0] * n
    evals = 1
    for t in range(4):
        acts = [((t + i) // (1 + i % 2)) % 2 for i in range(n)]  # every agent's own value changes, not in lock-step
        for i in range(n):
            game.agents["a%d" % i].store_action(acts[i])
        game.step()
        own = [(1.0 + i) * ((0.5 + i) if acts[i] == 0 else -(3 + i)) for i in range(n)]
        memo = {}

        def ref(i):
            if i not in memo:
                memo[i] = own[i] + sum((0.5 + 0.25 * b) * ref(b) for a, b in edges if a == i)
            return memo[i]

        for i in range(n):
            evals += 1
            got = game.agents["a%d" % i].reward_function.current_reward
            totals[i] += ref(i)
            if abs(got - ref(i)) > 1e-9:
                viols.append(violation("shared_reward_same_step_value", sig_shape,
                                       "graph %r step %d: a%d reward %r, reference (same-step values of its dependencies) %r; actions %r" % (
                                           edges, t + 1, i, got, ref(i), acts)))
            tot = game.agents["a%d" % i].reward_function.total_reward
            if abs(tot - totals[i]) > 1e-9:
                viols.append(violation("total_is_sum_of_step_rewards", sig_shape, "graph %r step %d: a%d total %r, sum of step rewards %r" % (
                    edges, t + 1, i, tot, totals[i])))
    seen = {}
    for v in viols:
        seen.setdefault((v["clause"], v["signature"]), v)
    return evals, list(seen.values())


def all_graphs(n, loops):
    pairs = [(a, b) for a in range(n) for b in range(n) if loops or a != b]
    for r in range(len(pairs) + 1):
        for es in itertools.combinations(pairs, r):
            yield (n, tuple(es))


# ------------------------------------------------------------------------------------------------------------
# (2) components
# ------------------------------------------------------------------------------------------------------------
class RewardModel:
    """Reference evaluation of every shipped component, with its own sticky memory, in lock-step with the game."""

    def __init__(self, cfg):
        self.cfg = cfg
        self.mem = {}

    def new_episode(self):
        self.mem = {}
        self.totals = {}

    def component(self, sim, agent_name, k, comp, last, values):
        t, o = comp["type"], comp.get("options", {})
        key = (agent_name, k)
        net = sim.network
        if t == "dummy":
            return 0.0
        if t == "action-penalty":
            return o.get("do_nothing_penalty", 0.0) if last.action == "do-nothing" else o.get("action_penalty", -1.0)
        if t == "shared-reward":
            return values[o["agent_name"]]
        if t == "database-file-integrity":
            node = net.get_node_by_hostname(o["node_hostname"])
            folder = node.file_system.get_folder(o["folder_name"]) if node else None
            f = folder.get_file(o["file_name"]) if folder else None
            if f is None:
                return 0.0
            return {2: -1.0, 1: 1.0}.get(f.health_status.value, 0.0)
        sticky = o.get("sticky", True)
        if t == "web-server-404-penalty":
            node = net.get_node_by_hostname(o["node_hostname"])
            svc = node.software_manager.software.get(o["service_name"]) if node else None
            if svc is None or not any(x is svc for x in node.services.values()):
                return 0.0
            codes = [c.value for c in getattr(svc, "response_codes_this_timestep", [])]
            if codes:
                self.mem[key] = sum(1.0 if c == 200 else -1.0 if c == 404 else 0.0 for c in codes) / len(codes)
            elif not sticky:
                self.mem[key] = 0.0
            return self.mem.get(key, 0.0)
        if t == "webpage-unavailable-penalty":
            node = net.get_node_by_hostname(o["node_hostname"])
            br = node.software_manager.software.get("web-browser") if node else None
            if br is not None and not any(x is br for x in node.applications.values()):
                br = None
            if br is None:
                self.mem[key] = 0.0
            attempted = last.request == ["network", "node", o["node_hostname"], "application", "web-browser", "execute"]
            if not attempted and sticky:
                return self.mem.get(key, 0.0)
            if last.response.status != "success":
                self.mem[key] = -1.0
            elif br is None or not br.history:
                self.mem[key] = 0.0
            else:
                outcome = br.history[-1].state()["outcome"]
                self.mem[key] = 0.0 if outcome == "PENDING" else (1.0 if outcome == 200 else -1.0)
            return self.mem[key]
        if t == "green-admin-database-unreachable-penalty":
            attempted = last.request == ["network", "node", o["node_hostname"], "application", "database-client", "execute"]
            if attempted:
                self.mem[key] = 1.0 if last.response.status == "success" else -1.0
            elif not sticky:
                self.mem[key] = 0.0
            return self.mem.get(key, 0.0)
        raise NotImplementedError(t)

    def step(self, game):
        """Expected current rewards of all agents for the step that just ended (dependencies resolved recursively)."""
        agents_cfg = {a["ref"]: a for a in self.cfg["agents"]}
        values = {}

        def val(name, stack=()):
            if name in values:
                return values[name]
            comps = list(agents_cfg[name].get("reward_function", {}).get("reward_components", []))
            for c in comps:
                if c["type"] == "shared-reward":
                    val(c["options"]["agent_name"], stack + (name,))
            last = game.agents[name].history[-1]
            total = 0.0
            for k, c in enumerate(comps):
                total += c.get("weight", 1.0) * self.component(game.simulation, name, k, c, last, values)
            values[name] = total
            return total

        for name in agents_cfg:
            val(name)
        return values


class RewardOracle:
    def __init__(self, cfg):
        self.cfg = cfg if not isinstance(cfg, str) else HE.load_yaml(cfg)

    def _m(self, s):
        m = getattr(s, "rmodel", None)
        if m is None:
            m = s.rmodel = RewardModel(self.cfg)
            m.new_episode()
        return m

    def after_build(self, s):
        self._m(s)
        return []

    def after_reset(self, s, obs, info, old_game):
        self._m(s).new_episode()
        return []

    def after_step(self, s, a, result):
        m = self._m(s)
        game = s.env.game
        exp = m.step(game)
        v = []
        for name, want in exp.items():
            ag = game.agents[name]
            got = ag.reward_function.current_reward
            m.totals[name] = m.totals.get(name, 0.0) + want
            if abs(got - want) > 1e-9:
                kinds = "+".join(sorted({c["type"] for c in [x for x in self.cfg["agents"] if x["ref"] == name][0]
                                        .get("reward_function", {}).get("reward_components", [])}))
                parts = [(type(c).__name__, getattr(c, "reward", None), w) for c, w in ag.reward_function.reward_components]
                v.append(violation("reward_is_weighted_sum_of_components", "agent-kinds:%s" % kinds,
                                   "step %d: agent %s reward %r, reference %r; components %r; last action %s -> %s" % (
                                       s.steps, name, got, want, parts, ag.history[-1].action, ag.history[-1].response.status)))
                m.totals[name] += got - want  # do not cascade
            if abs(ag.reward_function.total_reward - m.totals[name]) > 1e-9:
                v.append(violation("total_is_sum_of_step_rewards", "agent-total", "step %d: agent %s total %r, sum of step rewards %r" % (
                    s.steps, name, ag.reward_function.total_reward, m.totals[name])))
                m.totals[name] = ag.reward_function.total_reward
            hr = ag.history[-1].reward
            if hr is None or abs(hr - got) > 1e-9:
                v.append(violation("history_records_step_reward", "history-reward", "step %d: agent %s history reward %r vs current %r" % (
                    s.steps, name, hr, got)))
        blue = s.env.agent.reward_function.current_reward
        if abs(float(result[1]) - blue) > 1e-12:
            v.append(violation("env_reward_is_blue_reward", "env-reward", "env.step returned %r, blue current_reward %r" % (result[1], blue)))
        return v


REWARD_CORE = ("node-application-execute", "node-service-stop", "node-service-start", "node-file-delete", "node-file-repair",
               "node-shutdown", "node-startup", "router-acl-add-rule", "firewall-acl-add-rule", "node-application-remove",
               "node-file-corrupt", "node-folder-restore", "host-nic-disable", "node-service-fix", "node-application-close",
               "node-application-install")


def plan(tier):
    P = []
    g = HE.GEN
    base = dict(g[0], ep_len=8)
    members = [dict(base, name="r-sticky", sticky=True), dict(base, name="r-nonsticky", sticky=False)]
    if tier == "thorough":
        members.append(dict(base, name="r-fw-sticky", sticky=True, topo="firewall"))
    for v in members:
        cfg = HE.gen_scenario(v)
        if tier == "thorough":
            P.append((v["name"], cfg, "bfs", dict(depth=2, budget=60000, variant=v)))
            P.append((v["name"], cfg, "dev", dict(H=12, k=2, core=True, core_names=REWARD_CORE, variant=v)))
        else:
            P.append((v["name"], cfg, "bfs", dict(depth=1, budget=60000, variant=v)))  # every entry of the action map once
            P.append((v["name"], cfg, "dev", dict(H=9, k=1, core=True, core_names=REWARD_CORE, variant=v)))
            # the watched application is used, removed and installed again (what a sticky component remembers across that)
            P.append((v["name"] + "-reinstall", cfg, "dev", dict(
                H=9, k=1, core=True, core_names=REWARD_CORE, variant=v,
                script_hints=[("node-application-execute", "'application_name': 'web-browser'"),
                              ("do-nothing", ""), ("node-application-remove", "'client_1'"), ("do-nothing", ""),
                              ("node-application-install", "'client_1'")])))
    P.append(("data_manipulation", HE.SHIPPED["data_manipulation"], "dev", dict(H=40 if tier == "thorough" else 8, k=1, reset_seed=None,
                                                                             core=True, core_names=REWARD_CORE)))
    return P


def _strip(p):
    return {k: v for k, v in p.items() if k != "variant"}


def replay(doc):
    if doc.get("adapter") == "c10-graphs":
        it = doc["params"]["item"]
        return eval_graph((it[0], tuple(tuple(e) for e in it[1])))[1]
    p = doc["params"]
    name = p["scenario_name"]
    if name in HE.SHIPPED:
        cfg = HE.SHIPPED[name]
    else:
        cfg = HE.gen_scenario(dict(HE.GEN[0], ep_len=8, sticky=(name != "r-nonsticky"), topo="firewall" if "fw" in name else "routed"))
    ad = c01.make_adapter(name, cfg, p["p"], [RewardOracle(cfg)])
    s = ad.build()
    out = list(ad.check_initial(s))
    for ev in doc["history"]:
        ad.apply(s, tuple(ev))
    if doc.get("event") is not None:
        _, v = ad.apply(s, tuple(doc["event"]))
        out += v
    return out


def run(tier, is_known):
    t0 = time.time()
    HE.import_env()
    # (2) first registers adapters, then one pool serves both parts
    pl = [(n, c, m, _strip(p)) for n, c, m, p in plan(tier)]
    order = [cfg for _, cfg, _, _ in pl]
    idx = {"i": 0}

    def factory(cfg=None):
        if cfg is None:
            cfg = order[idx["i"]]
            idx["i"] += 1
        return [RewardOracle(cfg)]

    engine._FUNCS["c10-graphs"] = eval_graph
    res = c01.explore(tier, is_known, factory, PROP, plan=pl)
    # (1) graphs
    items = []
    for n in (1, 2, 3):
        items += list(all_graphs(n, loops=True))
    if tier == "thorough":
        items += list(all_graphs(4, loops=False))
    evals = 0
    n_cyc = 0
    gv = {}
    for item, (ne, v) in engine.pmap("c10-graphs", eval_graph, items, chunksize=4):
        evals += ne
        n_cyc += 1 if _cyclic(item[0], list(item[1])) else 0
        for x in v:
            x.update(adapter="c10-graphs", params={"item": item}, history=[], event=None)
            gv.setdefault((x["clause"], x["signature"]), x)
    res["violations"] += list(gv.values())
    cov = res["coverage"]
    cov["sharing_graphs"] = {"graphs": len(items), "cyclic": n_cyc, "acyclic": len(items) - n_cyc, "reward_evaluations": evals,
                             "max_agents": 4 if tier == "thorough" else 3, "self_loops_included_up_to": 3}
    cov["states"] += len(items)
    cov["transitions"] += evals
    cov["traces_validated_against_impl"] += evals
    cov["samples"].append({"sharing_graph": {"agents": 3, "edges": [[0, 1], [1, 2]]}})
    res["summary"] += " | sharing graphs=%d (cyclic %d) reward evaluations=%d wall=%.0fs" % (len(items), n_cyc, evals, time.time() - t0)
    res["assumptions"] += ["component semantics as documented in rewards.py docstrings / docs (database-file-integrity: GOOD +1, COMPROMISED -1, else 0)"]
    return res
