"""C18 — a link never carries more than its bandwidth in a tick; down links carry nothing.

Explicit-state BFS over small *real* networks (T1 switched LAN, T2 routed pair, T4 wireless router pair) whose link
bandwidth / air capacity is of the order of one frame.  The first event of every history chooses the bandwidth
(``("bw", factor)``: factor x the size of one measured probe frame, ``"1u"`` = exactly one frame as it is measured by
the admission check, ``"default"`` = the shipped 100 Mbit / WIFI_2_4 capacity); the remaining events are pings (warm,
cold = ARP broadcast flood), a database request/reply exchange, an FTP bulk put, a DoS-bot burst (which keeps bursting
inside ``apply_timestep``), NIC / switch-port / access-point disable+enable requests and ``tick``.

Seams (process-local monkey-patches installed by ``_install()`` when an adapter is created, never in /repo; importing
this module changes nothing): ``secrets.randbits`` is a counter-based stream (distinct
MACs, 5-digit ICMP identifiers), ``secrets.token_urlsafe`` is constant, and the name ``datetime`` inside
``data_link_layer`` has a fixed ``now()`` — so every frame size is a deterministic function of the history.

Monitor (class-level wrappers on ``Link.can_transmit_frame / transmit_frame / endpoint_down`` and
``AirSpace.can_transmit_frame / transmit``): after EVERY transmission it compares the load with the bandwidth and looks
at both end interfaces; at the end of every event and of every step it compares the reported loads with its own sums.

Besides the BFS a fixed set of longer scripted histories is run on every topology x bandwidth (not sampled; they are the
vacuity witnesses — frames sent / refused / pings answered per configuration — and reach a little beyond the BFS bound).
"""
from __future__ import annotations

import base64
import contextlib
import io
import secrets
import time
from datetime import datetime as _real_datetime
from ipaddress import IPv4Address

from .. import common, engine
from .. import harness_sim as hs
from ..engine import violation

common.import_sim()

import primaite.simulator.network.transmission.data_link_layer as _dll  # noqa: E402
from primaite.simulator.network.airspace import AirSpace  # noqa: E402
from primaite.simulator.network.hardware.base import Link  # noqa: E402
from primaite.simulator.network.hardware.nodes.network.router import ACLAction  # noqa: E402
from primaite.simulator.network.hardware.nodes.network.wireless_router import WirelessRouter  # noqa: E402
from primaite.simulator.system.applications.database_client import DatabaseClient  # noqa: E402
from primaite.simulator.system.applications.red_applications.dos_bot import DoSBot  # noqa: E402
from primaite.simulator.system.services.database.database_service import DatabaseService  # noqa: E402
from primaite.simulator.system.services.ftp.ftp_client import FTPClient  # noqa: E402
from primaite.simulator.system.services.ftp.ftp_server import FTPServer  # noqa: E402

PROP = "C18"
EPS = 1e-9          # Mbit; one byte is 7.6e-6 Mbit
MBIT_PER_BYTE = 8.0 / 1024.0**2


# ----------------------------------------------------------------------------------------------------------
# Seams: deterministic identifiers and clock (frame sizes are len(model_dump_json()) and depend on both)
# ----------------------------------------------------------------------------------------------------------
class _Seq:
    n = 0


def _randbits(k: int) -> int:
    _Seq.n += 1
    n = _Seq.n
    if k == 16:  # ICMP identifier: always five digits, never 0
        return 10000 + (n * 7919) % 50000
    if k <= 8:  # MAC bytes: n -> 37 n is a bijection mod 256, so NICs built one after another get distinct MACs
        return (n * 37) % (1 << k)
    return (n * 2654435761) % (1 << k)


def _token_urlsafe(nbytes=None) -> str:
    nbytes = 32 if nbytes is None else nbytes
    return base64.urlsafe_b64encode(bytes(nbytes)).rstrip(b"=").decode("ascii")


class _FixedDT(_real_datetime):
    @classmethod
    def now(cls, tz=None):
        return _real_datetime(2026, 1, 1, 12, 0, 0, 123456)


def _install():
    """(Re-)install the seams and the monitor wrappers in this process; idempotent, process-local, nothing in /repo.

    Called whenever an adapter is created or a network is built (before the worker pool is forked, so the workers
    inherit it)."""
    secrets.randbits = _randbits
    secrets.token_urlsafe = _token_urlsafe
    _dll.datetime = _FixedDT
    Link.can_transmit_frame = _w_can
    Link.transmit_frame = _w_tx
    Link.endpoint_down = _w_down
    AirSpace.can_transmit_frame = _w_acan
    AirSpace.transmit = _w_atx


# ----------------------------------------------------------------------------------------------------------
# Monitor
# ----------------------------------------------------------------------------------------------------------
_MON = None  # the monitor of the network currently being driven in this process

_O_CAN = Link.can_transmit_frame
_O_TX = Link.transmit_frame
_O_DOWN = Link.endpoint_down
_O_ACAN = AirSpace.can_transmit_frame
_O_ATX = AirSpace.transmit


def _owner(nic) -> str:
    """Name of the class whose send_frame put the frame on the medium (the call site of the admission check)."""
    for c in type(nic).__mro__:
        if "send_frame" in c.__dict__:
            return c.__name__
    return type(nic).__name__


def _host(nic) -> str:
    n = getattr(nic, "_connected_node", None)
    return "%s:%s" % (n.config.hostname if n is not None else "?", nic.port_num)


def _fdesc(frame) -> str:
    if frame.tcp:
        p = "tcp/%s" % frame.tcp.dst_port
    elif frame.udp:
        p = "udp/%s" % frame.udp.dst_port
    else:
        p = "icmp"
    return "%s %s" % (p, type(frame.payload).__name__)


class Mon:
    """Independent book-keeping of what was put on every medium since the start of the tick."""

    def __init__(self):
        self.names = {}       # link uuid -> name
        self.A = {}           # medium -> Mbit accepted (transmit returned True) since the last conventional reset
        self.B = {}           # medium -> Mbit put on the medium while it was up since the last conventional reset
        self.tickA = {}       # medium -> Mbit accepted since the start of the tick
        self.resets = {}      # medium -> number of times Link.endpoint_down zeroed a non-zero load in this tick
        self.inflight = {}    # medium -> sizes of the frames whose delivery has not returned yet
        self.adm = {}         # (medium, id(frame)) -> admission record
        self.air = {}         # "air:<name>" -> (hz, name)
        self.viols = []
        self.over_tick = set()  # media whose overflow was already reported in this tick
        self.trace = None     # [(kind, "adm"|"tx", size)] when the probe frame is being measured
        self.st = {"tx": 0, "accepted": 0, "declined_by_receiver": 0, "refused_capacity": 0, "refused_down": 0,
                   "nested_max": 0, "air_tx": 0, "air_refused": 0, "max_ratio": 0.0, "midtick_resets": 0}

    def name(self, link) -> str:
        n = self.names.get(link.uuid)
        if n is None:
            n = "%s-%s" % (_host(link.endpoint_a), _host(link.endpoint_b))
            self.names[link.uuid] = n
            self._init(n)
        return n

    def _init(self, n):
        for d in (self.A, self.B, self.tickA):
            d.setdefault(n, 0.0)
        self.resets.setdefault(n, 0)
        self.inflight.setdefault(n, [])

    def airkey(self, sender) -> str:
        k = "air:" + sender.frequency.name
        if k not in self.air:
            self.air[k] = (sender.frequency.frequency_hz, sender.frequency.name)
            self._init(k)
        return k

    def new_tick(self):
        for d in (self.A, self.B, self.tickA):
            for k in d:
                d[k] = 0.0
        for k in self.resets:
            self.resets[k] = 0
        self.over_tick.clear()

    def add(self, v):
        self.viols.append(v)


def _diagnose(medium_kind, owner, size, load0, load1, bw, counted, rec):
    """Why did the load end above the capacity?  Returns (signature, explanation)."""
    own_ok = load0 + size <= bw + EPS
    nested = (load1 - (size if counted else 0.0)) - load0
    tx = "Link.transmit_frame" if medium_kind == "wired" else "AirSpace.transmit"
    can = "Link.can_transmit_frame" if medium_kind == "wired" else "AirSpace.can_transmit_frame"
    if own_ok and nested > EPS:
        return (tx + ":load-added-after-delivery",
                "the frame fitted when it was put on the medium (load %.6f + %.6f <= %.6f) but %.6f Mbit were accounted by frames "
                "sent during its delivery: each of them was admitted against a load that did not include this frame yet" % (
                    load0, size, bw, nested))
    if not own_ok:
        if rec is None or not rec["ok"]:
            return ("%s.send_frame:transmit-without-admission" % owner,
                    "frame transmitted although %s" % ("the admission check was not asked" if rec is None else "the admission check refused it"))
        if rec["load"] + rec["size"] <= bw + EPS and size > rec["size"] + 1e-12:
            return ("%s.send_frame:frame-grew-after-admission" % owner,
                    "admission measured %.6f Mbit (load %.6f + %.6f <= %.6f) but the frame that was accounted is %.6f Mbit: "
                    "the sent timestamp is stamped after the admission check" % (rec["size"], rec["load"], rec["size"], bw, size))
        if rec["load"] + rec["size"] <= bw + EPS and load0 > rec["load"] + EPS:
            return ("%s.send_frame:load-changed-after-admission" % owner,
                    "admitted against load %.6f, transmitted at load %.6f" % (rec["load"], load0))
        return (can + ":admitted-over-capacity",
                "admission said yes although load %.6f + frame %.6f > capacity %.6f" % (rec["load"], rec["size"], bw))
    return (tx + ":load-accounting", "load went from %.6f to %.6f for a frame of %.6f Mbit" % (load0, load1, size))


def _w_can(self, frame):
    r = _O_CAN(self, frame)
    m = _MON
    if m is not None:
        n = m.name(self)
        up = bool(self.endpoint_a.enabled and self.endpoint_b.enabled)
        m.adm[(n, id(frame))] = {"size": frame.size_Mbits, "load": self.current_load, "ok": bool(r), "up": up,
                                 "inflight": sum(m.inflight[n])}
        if not r:
            m.st["refused_capacity" if up else "refused_down"] += 1
        if m.trace is not None:
            m.trace.append(("wired", "adm", frame.size_Mbits))
    return r


def _w_tx(self, sender_nic, frame):
    m = _MON
    if m is None:
        return _O_TX(self, sender_nic, frame)
    n = m.name(self)
    size = frame.size_Mbits
    recv = self.endpoint_b if sender_nic is self.endpoint_a else self.endpoint_a
    s_en, r_en = bool(sender_nic.enabled), bool(recv.enabled)
    load0, bw = self.current_load, self.bandwidth
    rec = m.adm.pop((n, id(frame)), None)
    fl = m.inflight[n]
    fl.append(size)
    m.st["nested_max"] = max(m.st["nested_max"], len(fl))
    desc = "%s from %s on %s" % (_fdesc(frame), _host(sender_nic), n)
    if m.trace is not None:
        m.trace.append(("wired", "tx", size))
    m.st["tx"] += 1
    if s_en and r_en:
        m.B[n] += size  # put on an up link (counted at entry: the code may account before or after delivery)
    try:
        ret = _O_TX(self, sender_nic, frame)
    finally:
        fl.pop()
    load1 = self.current_load
    if ret:
        m.A[n] += size
        m.tickA[n] += size
        m.st["accepted"] += 1
    else:
        m.st["declined_by_receiver"] += 1
    owner = _owner(sender_nic)
    if not (s_en and r_en):
        which = "sender" if not s_en else "receiver"
        if ret or load1 > load0 + EPS:
            m.add(violation("link_up_at_transmit", "Link.transmit_frame:delivered-while-%s-disabled" % which,
                            "%s: frame delivered / accounted (returned %r, load %.6f -> %.6f) while the %s interface was disabled" % (
                                desc, ret, load0, load1, which)))
        else:
            m.add(violation("link_up_at_transmit", "%s.send_frame:frame-put-on-down-link" % owner,
                            "%s: Link.transmit_frame was called (sender reports the frame as sent) while the %s interface was disabled" % (
                                desc, which)))
    if bw > 0:
        m.st["max_ratio"] = max(m.st["max_ratio"], load1 / bw)
    if load1 > bw + EPS and n not in m.over_tick:
        m.over_tick.add(n)
        sig, why = _diagnose("wired", owner, size, load0, load1, bw, bool(ret), rec)
        m.add(violation("load_le_bandwidth", sig, "%s: load %.6f Mbit > bandwidth %.6f Mbit after the transmission; %s" % (
            desc, load1, bw, why)))
    return ret


def _w_down(self):
    before = self.current_load
    r = _O_DOWN(self)
    m = _MON
    if m is not None:
        n = m.name(self)
        if self.current_load < before - EPS:
            # documented convention of the code: a link that goes down forgets its load
            m.A[n] = self.current_load
            m.B[n] = self.current_load
            m.resets[n] += 1
            m.st["midtick_resets"] += 1
    return r


def _w_acan(self, frame, sender_network_interface):
    r = _O_ACAN(self, frame, sender_network_interface)
    m = _MON
    if m is not None:
        k = m.airkey(sender_network_interface)
        hz = sender_network_interface.frequency.frequency_hz
        m.adm[(k, id(frame))] = {"size": frame.size_Mbits, "load": self.bandwidth_load.get(hz, 0.0), "ok": bool(r),
                                 "up": bool(sender_network_interface.enabled), "inflight": sum(m.inflight[k])}
        if not r:
            m.st["air_refused"] += 1
        if m.trace is not None:
            m.trace.append(("air", "adm", frame.size_Mbits))
    return r


def _w_atx(self, frame, sender_network_interface):
    m = _MON
    if m is None:
        return _O_ATX(self, frame, sender_network_interface)
    s = sender_network_interface
    k = m.airkey(s)
    hz = s.frequency.frequency_hz
    cap = self.get_frequency_max_capacity_mbps(s.frequency.name)
    size = frame.size_Mbits
    load0 = self.bandwidth_load.get(hz, 0.0)
    s_en = bool(s.enabled)
    rec = m.adm.pop((k, id(frame)), None)
    fl = m.inflight[k]
    fl.append(size)
    desc = "%s from %s on %s" % (_fdesc(frame), _host(s), k)
    if m.trace is not None:
        m.trace.append(("air", "tx", size))
    # the air has no accept/decline: whatever is transmitted is carried (counted before delivery, like the code does)
    m.st["air_tx"] += 1
    m.A[k] += size
    m.B[k] += size
    m.tickA[k] += size
    try:
        ret = _O_ATX(self, frame, s)
    finally:
        fl.pop()
    load1 = self.bandwidth_load.get(hz, 0.0)
    if not s_en:
        m.add(violation("link_up_at_transmit", "AirSpace.transmit:sender-disabled",
                        "%s: frame transmitted over the air by a disabled interface" % desc))
    if cap > 0:
        m.st["max_ratio"] = max(m.st["max_ratio"], load1 / cap)
    if load1 > cap + EPS and k not in m.over_tick:
        m.over_tick.add(k)
        sig, why = _diagnose("air", _owner(s), size, load0, load1, cap, True, rec)
        m.add(violation("load_le_bandwidth", sig, "%s: channel load %.6f Mbit > capacity %.6f Mbit after the transmission; %s" % (
            desc, load1, cap, why)))
    return ret


# ----------------------------------------------------------------------------------------------------------
# Topologies
# ----------------------------------------------------------------------------------------------------------
TOPOS = ("T1", "T2", "T4")
DEFAULT_WIRED = 100.0


def _install_sw(node, *classes):
    for c in classes:
        node.software_manager.install(c)


def _client_setup(node, server_ip, bulk):
    _install_sw(node, DatabaseClient, FTPClient)
    dbc = node.software_manager.software["database-client"]
    dbc.configure(server_ip_address=IPv4Address(server_ip))
    dbc.run()
    node.file_system.create_file(file_name="bulk.dat", folder_name="out", size=int(bulk))


def _build_net(topo, bw, bulk):
    """bw: wired bandwidth (T1, T2) or WIFI_2_4 capacity (T4) in Mbit, None = shipped default."""
    if topo == "T1":
        s = hs.lan([("computer", "a", "10.0.0.2"), ("computer", "b", "10.0.0.3"), ("server", "c", "10.0.0.4")],
                   bandwidth=DEFAULT_WIRED if bw is None else bw)
        _install_sw(s.nodes["c"], DatabaseService, FTPServer)
        _client_setup(s.nodes["a"], "10.0.0.4", bulk)
        _install_sw(s.nodes["b"], DoSBot)
        bot = s.nodes["b"].software_manager.software["dos-bot"]
        bot.configure(target_ip_address=IPv4Address("10.0.0.4"), port_scan_p_of_success=1.0, max_sessions=4, repeat=True)
        s.extra["server_ip"] = "10.0.0.4"
    elif topo == "T2":
        s = hs.routed(bandwidth=DEFAULT_WIRED if bw is None else bw)
        _install_sw(s.nodes["server"], DatabaseService, FTPServer)
        _client_setup(s.nodes["client"], "10.0.2.2", bulk)
        s.extra["server_ip"] = "10.0.2.2"
    elif topo == "T4":
        s = hs.SimSut()
        pa = hs.host("computer", "pa", "192.168.0.2", gw="192.168.0.1")
        pb = hs.host("computer", "pb", "192.168.2.2", gw="192.168.2.1")
        s.net.add_node(pa)
        s.net.add_node(pb)
        if bw is not None:
            with contextlib.redirect_stdout(io.StringIO()):  # the setter prints
                s.net.airspace.set_frequency_max_capacity_mbps({"WIFI_2_4": bw})
        routers = []
        for name, wired_ip, host_node in (("r1", "192.168.0.1", pa), ("r2", "192.168.2.1", pb)):
            r = WirelessRouter.from_config(config={"type": "wireless-router", "hostname": name, "start_up_duration": 0,
                                                   "shut_down_duration": 0}, airspace=s.net.airspace)
            r.power_on()
            s.net.add_node(r)
            r.configure_router_interface(wired_ip, "255.255.255.0")
            hs.connect(s, host_node, 1, r, 2, DEFAULT_WIRED)
            r.acl.add_rule(action=ACLAction.PERMIT, position=1)
            routers.append(r)
        routers[0].configure_wireless_access_point("192.168.1.1", "255.255.255.0")
        routers[1].configure_wireless_access_point("192.168.1.2", "255.255.255.0")
        routers[0].route_table.add_route(address="192.168.2.0", subnet_mask="255.255.255.0", next_hop_ip_address="192.168.1.2")
        routers[1].route_table.add_route(address="192.168.0.0", subnet_mask="255.255.255.0", next_hop_ip_address="192.168.1.1")
        _install_sw(pb, DatabaseService, FTPServer)
        _client_setup(pa, "192.168.2.2", bulk)
        s.extra["server_ip"] = "192.168.2.2"
    else:
        raise ValueError(topo)
    return s


MENUS = {
    "T1": [("tick",), ("ping", "a", "10.0.0.3"), ("ping", "a", "10.0.0.9"), ("db", "a"), ("ftp", "a"), ("dos", "b"),
           ("nic", "a", 1), ("nic", "sw", 1)],
    "T2": [("tick",), ("ping", "client", "10.0.2.2"), ("ping", "client", "10.0.2.9"), ("db", "client"), ("ftp", "client"),
           ("nic", "client", 1), ("nic", "r", 2)],
    "T4": [("tick",), ("ping", "pa", "192.168.2.2"), ("ping", "pa", "192.168.1.9"), ("ping", "pa", "192.168.1.2"), ("ftp", "pa"),
           ("nic", "r1", 1), ("nic", "r2", 1)],
}
# A ping to an unused address of the wireless subnet starts an ARP storm between the two routers (each one routes the
# other's ARP broadcast and asks again); it ends when the channel is full.  With the shipped 95 Mbit capacity it ends in a
# RecursionError whose depth depends on the caller's stack, so that one event is left out at the default capacity.
MENU_T4_DEFAULT = [e for e in MENUS["T4"] if e != ("ping", "pa", "192.168.1.9")]
T4_FACTORS = [0, 0.5, "1u", 1.5, 2.5, 10]  # 0 and 0.5: not even one frame fits (the shipped "blocked channel" configuration is 0)
PROBE = {"T1": ("a", "10.0.0.3"), "T2": ("client", "10.0.2.2"), "T4": ("pa", "192.168.2.2")}

_UNIT = {}


def unit(topo):
    """(accounted, admitted) size in Mbit of the first frame a cold ping puts on the medium under test (an ARP request)."""
    global _MON
    if topo not in _UNIT:
        _install()
        keep = _MON
        _Seq.n = 0
        m = Mon()
        m.trace = []
        _MON = m
        try:
            s = _build_net(topo, None, 1000)
            s.start()
            src, dst = PROBE[topo]
            s.nodes[src].ping(dst, pings=1)
        finally:
            _MON = keep
        want = "air" if topo == "T4" else "wired"
        admitted = next(sz for kind, what, sz in m.trace if kind == want and what == "adm")
        accounted = next(sz for kind, what, sz in m.trace if kind == want and what == "tx")
        _UNIT[topo] = (accounted, admitted)
    return _UNIT[topo]


def bandwidth_for(topo, factor):
    if factor == "default":
        return None
    stamped, unstamped = unit(topo)
    if factor == "1u":
        return unstamped
    return float(factor) * stamped


# ----------------------------------------------------------------------------------------------------------
# Adapter
# ----------------------------------------------------------------------------------------------------------
class Shell:
    def __init__(self):
        self.sut = None
        self.mon = None
        self.factor = None
        self.bw = None
        self.exc = 0
        self.exc_seen = []


class NetAdapter(engine.Adapter):

    def __init__(self, topo, factors, menu=None):
        self.topo = topo
        self.factors = list(factors)
        self.events = [tuple(e) for e in (menu if menu is not None else MENUS[topo])]
        self.name = "c18-%s" % topo
        _install()
        if menu is not None:
            self.name += "-" + engine.digest(self.events)[:6]

    def params(self):
        return {"topo": self.topo, "factors": self.factors, "menu": [list(e) for e in self.events]}

    def build(self):
        return Shell()

    def menu(self, s):
        if s.sut is None:
            return [("bw", f) for f in self.factors]
        return self.events

    def label(self, ev):
        return str(ev[0])

    # ------------------------------------------------------------------ the events
    def _configure(self, s, factor):
        global _MON
        bw = bandwidth_for(self.topo, factor)
        _install()
        _Seq.n = 0
        s.mon = Mon()
        _MON = s.mon
        s.factor = factor
        cap = bw if bw is not None else (DEFAULT_WIRED if self.topo != "T4" else 100_000_000.0 / 1024.0**2)
        s.bw = cap
        bulk = max(500, int(0.55 * cap / MBIT_PER_BYTE))
        s.sut = _build_net(self.topo, bw, bulk)
        s.sut.start()
        v = self._check_zero(s, "build")
        s.mon.new_tick()
        return "built", v

    def _do(self, s, ev):
        """Nothing but the call into the real code (so that only its exceptions are caught by apply)."""
        k = ev[0]
        sut = s.sut
        if k == "ping":
            return bool(sut.nodes[ev[1]].ping(ev[2], pings=1))
        if k == "db":
            r = sut.node_req(ev[1], ["application", "database-client", "execute"])
        elif k == "ftp":
            r = sut.node_req(ev[1], ["service", "ftp-client", "send", {
                "dest_ip_address": sut.extra["server_ip"], "src_folder_name": "out", "src_file_name": "bulk.dat",
                "dest_folder_name": "in", "dest_file_name": "bulk.dat"}])
        elif k == "dos":
            r = sut.node_req(ev[1], ["application", "dos-bot", "execute"])
        elif k == "nic":
            nic = sut.nodes[ev[1]].network_interface[ev[2]]
            verb = "disable" if nic.enabled else "enable"
            r = sut.node_req(ev[1], ["network_interface", ev[2], verb])
            return "%s:%s" % (verb, getattr(r, "status", repr(r)))
        else:
            raise engine.HarnessError("unknown event %r" % (ev,))
        return getattr(r, "status", repr(r))

    def _guard(self, s, fn):
        """Run real code; an escaping exception is an outcome (not this property's business), never a harness fault."""
        try:
            return fn()
        except engine.HarnessError:
            raise
        except Exception as e:  # noqa
            s.exc += 1
            if len(s.exc_seen) < 5:
                s.exc_seen.append("%s: %s" % (type(e).__name__, str(e)[:100]))
            for fl in s.mon.inflight.values():
                del fl[:]
            return "raised:%s" % type(e).__name__

    def apply(self, s, ev):
        global _MON
        ev = tuple(ev)
        if ev[0] == "bw":
            if s.sut is not None:
                raise engine.HarnessError("bw event on a built network")
            out, v = self._configure(s, ev[1])
            v = list(s.mon.viols) + v
            s.mon.viols = []
            v += self._end_checks(s, ev, "end-of-event")
            return [out], _dedup(v)
        if s.sut is None:
            raise engine.HarnessError("event %r before the bw event" % (ev,))
        _MON = s.mon
        m = s.mon
        sut = s.sut
        m.viols = []
        m.adm.clear()
        before = dict(m.st)
        if ev[0] == "tick":
            out = self._guard(s, lambda: sut.sim.apply_timestep(sut.t)) or "tick"
            v = list(m.viols)
            m.viols = []
            v += self._end_checks(s, ev, "end-of-step")
            sut.t += 1
            out2 = self._guard(s, lambda: sut.sim.pre_timestep(sut.t))
            v += list(m.viols)
            m.viols = []
            v += self._check_zero(s, "pre_timestep")
            m.new_tick()
            if out2:
                out = out2
        else:
            out = self._guard(s, lambda: self._do(s, ev))
            v = list(m.viols)
            m.viols = []
            v += self._end_checks(s, ev, "end-of-event")
        d = {k2: m.st[k2] - before[k2] for k2 in ("tx", "accepted", "refused_capacity", "refused_down", "air_tx", "air_refused")}
        return [out, d["tx"], d["accepted"], d["refused_capacity"], d["refused_down"], d["air_tx"], d["air_refused"]], _dedup(v)

    # ------------------------------------------------------------------ oracle at quiescent points
    def _media(self, s):
        """[(name, kind, load, capacity, obj)] for every link and every air channel in use."""
        m = s.mon
        out = []
        for link in s.sut.net.links.values():
            out.append((m.name(link), "wired", link.current_load, link.bandwidth, link))
        asp = s.sut.net.airspace
        for k, (hz, fname) in m.air.items():
            out.append((k, "air", asp.bandwidth_load.get(hz, 0.0), asp.get_frequency_max_capacity_mbps(fname), asp))
        return out

    def _check_zero(self, s, where):
        v = []
        for n, kind, load, cap, obj in self._media(s):
            if load != 0.0:
                v.append(violation("loads_zero_at_tick_start",
                                   ("Link.pre_timestep" if kind == "wired" else "AirSpace.reset_bandwidth_load") + ":" + where,
                                   "%s carries %.6f Mbit right after %s (expected 0)" % (n, load, where)))
        for hz, load in s.sut.net.airspace.bandwidth_load.items():
            if load != 0.0 and not any(a[0] == hz for a in s.mon.air.values()):
                v.append(violation("loads_zero_at_tick_start", "AirSpace.reset_bandwidth_load:" + where,
                                   "frequency %s carries %.6f Mbit right after %s" % (hz, load, where)))
        return v

    def _end_checks(self, s, ev, where):
        m = s.mon
        v = []
        reported_raw = s.sut.sim.describe_state()["network"]["links"]
        reported = {d.get("uuid"): d for d in reported_raw.values()}
        for n, kind, load, cap, obj in self._media(s):
            if load > cap + EPS and n not in m.over_tick:
                m.over_tick.add(n)
                v.append(violation("load_le_bandwidth", ("Link" if kind == "wired" else "AirSpace") + ":" + where,
                                   "%s: load %.6f Mbit > capacity %.6f Mbit at the %s (not seen at any transmission)" % (n, load, cap, where)))
            if m.inflight.get(n):
                raise engine.HarnessError("monitor: frames still in flight on %s at a quiescent point" % n)
            a, b = m.A[n], m.B[n]
            if load < a - EPS:
                v.append(violation("load_matches_monitor", ("Link.current_load" if kind == "wired" else "AirSpace.bandwidth_load") + ":below-accepted-sum",
                                   "%s: load %.6f Mbit but the frames accepted by the receiving end since the last reset add up to %.6f" % (n, load, a)))
            elif load > b + EPS:
                v.append(violation("load_matches_monitor", ("Link.current_load" if kind == "wired" else "AirSpace.bandwidth_load") + ":above-transmitted-sum",
                                   "%s: load %.6f Mbit but all frames put on it since the last reset add up to only %.6f" % (n, load, b)))
            if kind == "wired":
                rep = reported.get(obj.uuid)
                if rep is None or rep.get("current_load") != load or rep.get("bandwidth") != cap:
                    v.append(violation("reported_load_matches_monitor", "Link.describe_state",
                                       "%s: describe_state reports %r, the link holds load %r bandwidth %r" % (
                                           n, None if rep is None else (rep.get("current_load"), rep.get("bandwidth")), load, cap)))
            if m.tickA[n] > cap + EPS and ("tick:" + n) not in m.over_tick and n not in m.over_tick:
                m.over_tick.add("tick:" + n)
                sig = "Link.endpoint_down:load-zeroed-mid-tick" if m.resets.get(n) else (("Link" if kind == "wired" else "AirSpace") + ":unattributed")
                v.append(violation("tick_total_le_bandwidth", sig,
                                   "%s carried %.6f Mbit of accepted frames in this tick, capacity %.6f Mbit (current load %.6f; "
                                   "the load was zeroed %d time(s) in this tick because an end interface was disabled)" % (
                                       n, m.tickA[n], cap, load, m.resets.get(n, 0))))
        if len(reported_raw) != len(s.sut.net.links):
            v.append(violation("reported_load_matches_monitor", "Network.describe_state:links",
                               "describe_state lists %d links, the network has %d" % (len(reported_raw), len(s.sut.net.links))))
        return v

    # ------------------------------------------------------------------ canonical state
    def canon(self, s):
        if s.sut is None:
            return ("unbuilt",)
        m = s.mon
        extra = []
        for n in s.sut.net.nodes.values():
            for sw in n.software_manager.software.values():
                if isinstance(sw, DatabaseClient):
                    extra.append((n.config.hostname, sw.name, sw.native_connection is not None, len(sw.client_connections),
                                  str(getattr(sw, "attack_stage", None)), bool(sw.connected)))
        air = tuple(sorted((str(hz), round(load, 9)) for hz, load in s.sut.net.airspace.bandwidth_load.items() if load))
        mon = tuple(sorted((k, round(m.tickA[k], 9), round(m.A[k], 9), round(m.B[k], 9), m.resets.get(k, 0) > 0, k in m.over_tick)
                           for k in m.tickA))
        return (self.topo, str(s.factor), hs.sim_canon(s.sut), tuple(extra), air, mon)


def _dedup(v):
    seen, out = set(), []
    for x in v:
        k = (x["clause"], x["signature"], x["detail"])
        if k not in seen:
            seen.add(k)
            out.append(x)
    return out


def make_adapter(params):
    return NetAdapter(params["topo"], params["factors"], params.get("menu"))


def replay(doc):
    ad = make_adapter(doc["params"])
    s = ad.build()
    for ev in doc["history"]:
        ad.apply(s, tuple(ev))
    if doc.get("event") is None:
        return []
    _, v = ad.apply(s, tuple(doc["event"]))
    return v


# ----------------------------------------------------------------------------------------------------------
# Scripted deep histories (beyond the BFS bound; fixed, not sampled) — also the vacuity witnesses
# ----------------------------------------------------------------------------------------------------------
def _scripts(topo, factor=None):
    e = {ev[0] + (":cold" if ev[0] == "ping" and ev[2].endswith(".9") else ""): ev for ev in reversed(MENUS[topo])}
    ping, cold, tick, ftp = e["ping"], e["ping:cold"], e["tick"], e["ftp"]
    if topo == "T4" and factor == "default":
        cold = ("ping", "pa", "192.168.1.2")  # see MENU_T4_DEFAULT
    nic_host, nic_far = [ev for ev in MENUS[topo] if ev[0] == "nic"]
    db = e.get("db", ping)
    out = [
        # traffic, one end down and up again in the same tick, traffic again
        [ping, nic_host, nic_host, ping, db, tick, ping],
        [ping, tick, ping, nic_far, ping, nic_far, ping, ping],
        [ping, tick, ftp, nic_far, nic_far, ftp, tick, ftp, nic_host, nic_host, ftp],
        # warm up, then fill the link with exchanges in one tick
        [ping, tick, ping, ping, db, ping, db, ping, tick, db, db, db, ping],
        # floods and bulk
        [cold, cold, ping, tick, ftp, ftp, tick, ping, ftp, cold],
        [ping, tick, db, tick, ftp, db, ping, tick, cold, ftp],
    ]
    if "dos" in e:
        out.append([ping, tick, e["dos"], tick, ping, tick, db, tick])
    return out


def run_script(item):
    """item = (topo, factor, script_index). Runs the whole script (does not stop at a violation)."""
    topo, factor, idx = item
    ad = NetAdapter(topo, [factor])
    script = [("bw", factor)] + _scripts(topo, factor)[idx]
    s = ad.build()
    viols = []
    outs = []
    for i, ev in enumerate(script):
        o, v = ad.apply(s, ev)
        outs.append(o)
        for x in v:
            x.update(history=[list(h) for h in script[:i]], event=list(ev), adapter=ad.name, params=ad.params())
        viols += v
    st = dict(s.mon.st)
    st["exceptions"] = s.exc
    st["pings_ok"] = sum(1 for ev, o in zip(script, outs) if ev[0] == "ping" and o[0] is True)
    st["pings"] = sum(1 for ev in script if ev[0] == "ping")
    st["requests_ok"] = sum(1 for ev, o in zip(script, outs) if ev[0] in ("db", "ftp", "dos") and o[0] == "success")
    st["requests"] = sum(1 for ev in script if ev[0] in ("db", "ftp", "dos"))
    st["events"] = len(script)
    return st, viols, list(s.exc_seen)


# ----------------------------------------------------------------------------------------------------------
# run
# ----------------------------------------------------------------------------------------------------------
FACTORS = [0.5, "1u", 1.5, 2.5, 10, "default"]


def run(tier, is_known):
    t0 = time.time()
    thorough = tier == "thorough"
    # (topology, factors, menu, BFS depth including the leading bw event, state budget, time budget: a level is only started
    # while the time budget is not used up, so on fewer cores the last level is cut and reported as a cap)
    if thorough:
        plan = [("T1", FACTORS, None, 8, 600000, 300), ("T2", FACTORS, None, 8, 600000, 200),
                ("T4", T4_FACTORS, None, 7, 300000, 120), ("T4", ["default"], MENU_T4_DEFAULT, 7, 100000, 60)]
    else:
        plan = [("T1", FACTORS, None, 5, 60000, 120), ("T2", FACTORS, None, 5, 60000, 120),
                ("T4", T4_FACTORS, None, 4, 30000, 120), ("T4", ["default"], MENU_T4_DEFAULT, 4, 30000, 120)]
    viols = []
    per = []
    samples = []
    hist = {}
    states = trans = outcomes = 0
    exhaustive = True
    units = {}
    for topo, factors, menu, depth, budget, tb in plan:
        ad = NetAdapter(topo, factors, menu)
        u = unit(topo)
        units.setdefault(topo, {"probe_frame_Mbit_as_accounted": u[0], "probe_frame_Mbit_as_admitted": u[1],
                                "bandwidths_Mbit": {}})["bandwidths_Mbit"].update({str(f): bandwidth_for(topo, f) for f in factors})
        r = engine.bfs(ad, depth, state_budget=budget, time_budget=tb, is_known=is_known, max_violations=10**6)
        viols += r.violations
        states += r.states
        trans += r.transitions
        outcomes += len(r.outcomes)
        for k, n in r.hist.items():
            hist[k] = hist.get(k, 0) + n
        samples += r.samples[:1]
        exhaustive = exhaustive and r.capped is None and (r.max_depth_completed == depth or r.frontier_emptied)
        per.append({"adapter": ad.name, "params": ad.params(), "depth_requested_including_bw_event": depth,
                    "depth_completed": r.max_depth_completed, "states": r.states, "transitions": r.transitions,
                    "merged_by_canon": r.merged, "pruned_after_violation": r.pruned, "frontier_emptied": r.frontier_emptied,
                    "cap": r.capped, "level_sizes": r.level_sizes, "determinism_replays": r.determinism_checked,
                    "distinct_outcomes": len(r.outcomes), "event_histogram": dict(r.hist)})
    # scripted deep histories on every topology x factor: vacuity witnesses + extra detection beyond the BFS bound
    items = [(topo, f, i) for topo in TOPOS for f in FACTORS for i in range(len(_scripts(topo, f)))]
    wit = {}
    script_events = 0
    script_viol = 0
    exc_seen = set()
    for item, (st, v, ex) in engine.pmap("c18-scripts", run_script, items):
        exc_seen.update(ex)
        key = "%s x %s" % (item[0], item[1])
        w = wit.setdefault(key, {})
        for k, n in st.items():
            w[k] = max(w.get(k, 0), n) if k in ("max_ratio", "nested_max") else w.get(k, 0) + n
        script_events += st["events"]
        script_viol += len(v)
        viols += v
    for w in wit.values():
        w["max_ratio"] = round(w["max_ratio"], 4)
    sigs = {}
    for v in viols:
        k = "%s / %s" % (v["clause"], v["signature"])
        sigs[k] = sigs.get(k, 0) + 1
    cov = {
        "states": states, "transitions": trans + script_events,
        "traces_validated_against_impl": trans + script_events,
        "samples": samples or [{"history": []}],
        "exhaustive": exhaustive,
        "explanation": "every event sequence up to the stated depth (first event = choice of bandwidth) was executed on real "
                       "Simulation/Network/Link/AirSpace objects; the monitor checked load<=capacity and both end interfaces after "
                       "every single transmission, and loads/reported state/monitor sums at the end of every event and step",
        "harnesses": per, "event_histogram": hist, "distinct_outcomes": outcomes, "units": units,
        "scripted_histories": {"count": len(items), "events": script_events, "violating_transitions": script_viol,
                               "per_topology_x_factor": wit,
                               "exceptions_escaping_the_code_under_check": sorted(exc_seen)},
        "violation_signature_counts": sigs,
    }
    return {
        "violations": viols, "coverage": cov, "level": "model_checking",
        "assumptions": [
            "frame sizes are made deterministic by seams: counter-based secrets.randbits (5-digit ICMP identifiers), constant "
            "secrets.token_urlsafe, fixed datetime.now() inside data_link_layer (timestamps always carry microseconds)",
            "bandwidths: {as-admitted size of one ARP request, 1.5x, 2.5x, 10x its accounted size, shipped default}; T4 tightens the "
            "WIFI_2_4 capacity and keeps its two wired links at 100 Mbit",
            "'data carried' = frames for which Link.transmit_frame returned True (the receiving interface took them); frames that "
            "an enabled receiving interface declined (flooded to a host they are not addressed to, TTL expired) may or may not "
            "be counted: current_load must lie between the accepted sum and the sum of everything put on the up link",
            "a call of Link.transmit_frame / AirSpace.transmit is 'a frame crossing': both end interfaces (air: the sender) must be "
            "enabled at that moment",
            "Link.endpoint_down zeroing the load is followed for the load/monitor comparison, but the tick total of accepted "
            "frames is still held against the bandwidth (clause tick_total_le_bandwidth)",
            "ping is driven through Node.ping(pings=1) (no request exists); everything else through Simulation.apply_request; "
            "several requests may fall into one tick (several agents act per step)",
            "an exception escaping the code under check during an event is recorded as an outcome, not as a C18 violation",
        ],
        "summary": "states=%d transitions=%d scripted_events=%d harnesses=%d distinct_violation_signatures=%d wall=%.0fs" % (
            states, trans, script_events, len(per), len(sigs), time.time() - t0),
    }
