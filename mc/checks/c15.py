"""C15 — the file system stays structurally consistent under any operation sequence.

Explicit-state BFS over the real FileSystem of a real Computer inside a real Simulation.  Three adapters:
``req``  requests through Simulation.apply_request (the path agent actions use),
``act``  the same but every request is produced by the registered action classes' form_request,
``api``  the FileSystem Python API.
"""
from __future__ import annotations

import time

from .. import common, engine
from ..engine import violation

common.import_sim()

from primaite.simulator.file_system.file_system_item_abc import FileSystemItemHealthStatus  # noqa: E402
from primaite.simulator.network.hardware.nodes.host.computer import Computer  # noqa: E402
from primaite.simulator.sim_container import Simulation  # noqa: E402

PROP = "C15"
FOLDERS = ["f1", "f2"]
FILES = ["a.txt", "b.txt"]
FILE_VERBS = ["scan", "repair", "restore", "corrupt", "delete"]
FOLDER_VERBS = ["scan", "repair", "restore", "corrupt"]


class Sut:
    pass


class FsAdapter(engine.Adapter):
    def __init__(self, mode: str, folders=FOLDERS, files=FILES, durations=(3, 3), init=(), power=False, flat=False):
        self.init = [tuple(e) for e in init]  # events applied by build(): the search starts from a non-initial state
        self.power = power                    # offer node shutdown / start-up (durations 0) among the events
        self.flat = flat                      # offer the flat ["file", <name>, <verb>] request route
        self.mode = mode
        self.folders = list(folders)
        self.files = list(files)
        self.durations = tuple(durations)
        self.name = "c15-%s-%d%d%s%s%s" % (mode, len(self.folders), len(self.files), "-i%d" % len(self.init) if self.init else "",
                                           "-pwr" if power else "", "-flat" if flat else "")
        self._menu = self._make_menu()

    def params(self):
        return {"mode": self.mode, "folders": self.folders, "files": self.files, "durations": list(self.durations),
                "init": [list(e) for e in self.init], "power": self.power, "flat": self.flat}

    # ------------------------------------------------------------------ build
    def build(self):
        s = Sut()
        s.sim = Simulation()
        pc = Computer.from_config(
            {"type": "computer", "hostname": "pc", "ip_address": "10.0.0.2", "subnet_mask": "255.255.255.0",
             "start_up_duration": 0, "shut_down_duration": 0}
        )
        pc.power_on()
        s.sim.network.add_node(pc)
        s.pc = pc
        s.fs = pc.file_system
        s.fs._default_folder_scan_duration = self.durations[0]
        s.fs._default_folder_restore_duration = self.durations[1]
        s.t = 0
        s.tracked = {}  # id(obj) -> (kind, obj, parent)
        s.sim.pre_timestep(0)
        self._track(s)
        for ev in self.init:
            self.apply(s, ev)
        return s

    # ------------------------------------------------------------------ menu
    def _make_menu(self):
        m = [("tick",)]
        if self.mode in ("req", "act"):
            for fo in self.folders:
                m.append(("create_folder", fo))
                for fi in self.files:
                    if self.mode == "req":
                        m.append(("create_file", fo, fi, False))
                        m.append(("create_file", fo, fi, True))
                    else:
                        m.append(("create_file", fo, fi, False))
                    m.append(("delete_file", fo, fi))
                    m.append(("restore_file", fo, fi))
                    m.append(("access_file", fo, fi))
                    for v in FILE_VERBS:
                        if v == "delete" and self.mode == "act":
                            continue
                        m.append(("file", fo, fi, v))
                m.append(("delete_folder", fo))
                m.append(("restore_folder", fo))
                for v in FOLDER_VERBS:
                    if v == "corrupt" and self.mode == "act":
                        continue  # no action class addresses folder corrupt
                    m.append(("folder", fo, v))
            if self.flat:
                for fi in self.files:
                    for v in ("scan", "repair", "restore", "corrupt"):
                        m.append(("flatfile", fi, v))
            if self.power:
                m.append(("pwr",))
        else:
            for fo in self.folders:
                m.append(("create_folder", fo))
                m.append(("delete_folder", fo))
                m.append(("restore_folder", fo))
                for fi in self.files:
                    m.append(("create_file", fo, fi, False))
                    m.append(("create_file", fo, fi, True))
                    m.append(("delete_file", fo, fi))
                    m.append(("restore_file", fo, fi))
            m.append(("copy_file", self.folders[0], self.files[0], self.folders[-1]))
        return m

    def menu(self, s):
        if self.mode != "api":
            return self._menu
        # copy_file is only used in-tree (database restore) after the destination name has been deleted:
        # offer it only when the destination folder holds no live file of that name
        live = self._live_names(s)
        return [e for e in self._menu if e[0] != "copy_file" or e[2] not in live.get(e[3], ())]

    # ------------------------------------------------------------------ requests
    def _request(self, ev):
        k = ev[0]
        base = ["network", "node", "pc", "file_system"]
        if self.mode == "act":
            from primaite.game.agent.actions import ActionManager  # noqa
            from primaite.game.agent.actions.abstract import AbstractAction

            reg = AbstractAction._registry

            def act(name, **kw):
                cls = reg[name]
                return cls.form_request(cls.ConfigSchema(type=name, node_name="pc", **kw))

            if k == "create_folder":
                return act("node-folder-create", folder_name=ev[1])
            if k == "create_file":
                return act("node-file-create", folder_name=ev[1], file_name=ev[2], force=ev[3])
            if k == "delete_file":
                return act("node-file-delete", folder_name=ev[1], file_name=ev[2])
            if k == "access_file":
                return act("node-file-access", folder_name=ev[1], file_name=ev[2])
            if k == "file":
                return act("node-file-" + ev[3], folder_name=ev[1], file_name=ev[2])
            if k == "folder":
                return act("node-folder-" + ev[2], folder_name=ev[1])
            # no action class exists for these: use the raw request
        if k == "create_folder":
            return base + ["create", "folder", ev[1]]
        if k == "create_file":
            return base + ["create", "file", ev[1], ev[2], ev[3]]
        if k == "delete_file":
            return base + ["delete", "file", ev[1], ev[2]]
        if k == "delete_folder":
            return base + ["delete", "folder", ev[1]]
        if k == "restore_file":
            return base + ["restore", "file", ev[1], ev[2]]
        if k == "restore_folder":
            return base + ["restore", "folder", ev[1]]
        if k == "access_file":
            return base + ["access", ev[1], ev[2]]
        if k == "file":
            if ev[3] == "delete":
                return base + ["folder", ev[1], "delete", ev[2]]
            return base + ["folder", ev[1], "file", ev[2], ev[3]]
        if k == "folder":
            return base + ["folder", ev[1], ev[2]]
        if k == "flatfile":
            return base + ["file", ev[1], ev[2]]
        raise ValueError(ev)

    # ------------------------------------------------------------------ apply
    def apply(self, s, ev):
        viols = []
        k = ev[0]
        outcome = None
        live_before = self._live_names(s)
        try:
            if k == "tick":
                s.sim.apply_timestep(s.t)
                s.t += 1
                s.sim.pre_timestep(s.t)
                if s.fs.num_file_creations != 0 or s.fs.num_file_deletions != 0:
                    viols.append(violation("counters_zero_at_tick_start", "pre_timestep",
                                           "creations=%s deletions=%s right after pre_timestep" % (
                                               s.fs.num_file_creations, s.fs.num_file_deletions)))
                outcome = "tick"
            elif k == "pwr":
                verb = "shutdown" if s.pc.operating_state.name == "ON" else "startup"
                outcome = verb + ":" + s.sim.apply_request(["network", "node", "pc", verb]).status
            elif self.mode == "api":
                outcome = self._api(s, ev)
            else:
                req = self._request(ev)
                resp = s.sim.apply_request(req)
                outcome = getattr(resp, "status", repr(resp))
                if outcome not in ("success", "failure", "unreachable", "pending"):
                    viols.append(violation("response_status", k, "request %r answered %r" % (req, resp)))
                viols += self._refusal_checks(s, ev, outcome, live_before)
        except Exception as e:  # noqa
            if self.mode == "api" and k == "create_file" and not ev[3] and "already exists" in str(e):
                # the Python API documents (Folder.add_file) that adding an existing name without force raises
                outcome = "raises-already-exists"
            else:
                viols.append(violation("no_exception", self._sig(s, ev, live_before), "%s raised %s: %s" % (
                    list(ev), type(e).__name__, e)))
                outcome = "exception"
        self._track(s, replaced=(ev[1], ev[2]) if k == "create_file" and ev[3] else None)
        viols += self._invariants(s, ev, live_before)
        return outcome, viols

    def _api(self, s, ev):
        k = ev[0]
        fs = s.fs
        if k == "create_folder":
            return bool(fs.create_folder(ev[1]))
        if k == "create_file":
            f = fs.create_file(ev[2], folder_name=ev[1], force=ev[3])
            return bool(f)
        if k == "delete_file":
            return fs.delete_file(ev[1], ev[2])
        if k == "delete_folder":
            return fs.delete_folder(ev[1])
        if k == "restore_file":
            return fs.restore_file(ev[1], ev[2])
        if k == "restore_folder":
            return fs.restore_folder(ev[1])
        if k == "move_file":
            fs.move_file(ev[1], ev[2], ev[3])
            return None
        if k == "copy_file":
            fs.copy_file(ev[1], ev[2], ev[3])
            return None
        raise ValueError(ev)

    # ------------------------------------------------------------------ oracle helpers
    def _live_names(self, s):
        d = {}
        for fo in s.fs.folders.values():
            d.setdefault(fo.name, set()).update(f.name for f in fo.files.values())
        return d

    def _sig(self, s, ev, live_before):
        k = ev[0]
        if k in ("create_file", "delete_file", "restore_file", "access_file", "file"):
            st = "live" if ev[2] in live_before.get(ev[1], ()) else (
                "deleted" if self._is_deleted_file(s, ev[1], ev[2]) else "absent")
            extra = ":force=%s" % ev[3] if k == "create_file" else (":" + ev[3] if k == "file" else "")
            return "%s:%s%s:target-%s" % (self.mode, k, extra, st)
        if k in ("create_folder", "delete_folder", "restore_folder", "folder"):
            st = "live" if ev[1] in live_before else (
                "deleted" if any(f.name == ev[1] for f in s.fs.deleted_folders.values()) else "absent")
            extra = ":" + ev[2] if k == "folder" else ""
            return "%s:%s%s:target-%s" % (self.mode, k, extra, st)
        return "%s:%s" % (self.mode, k)

    def _is_deleted_file(self, s, fo, fi):
        for d in (s.fs.folders, s.fs.deleted_folders):
            for folder in d.values():
                if folder.name == fo and any(f.name == fi for f in folder.deleted_files.values()):
                    return True
        return False

    def _refusal_checks(self, s, ev, outcome, live_before):
        """Requests that address a deleted / never created item must not succeed."""
        v = []
        k = ev[0]
        if k in ("file", "access_file", "delete_file") and outcome == "success":
            if ev[2] not in live_before.get(ev[1], ()):
                v.append(violation("deleted_or_missing_item_unavailable", self._sig(s, ev, live_before),
                                   "%s succeeded although %s/%s was not live" % (list(ev), ev[1], ev[2])))
        if k == "flatfile" and outcome == "success":
            if not any(ev[1] in names for names in live_before.values()):
                v.append(violation("deleted_or_missing_item_unavailable", self._sig(s, ev, live_before),
                                   "%s succeeded although no live file is called %s" % (list(ev), ev[1])))
        if k in ("folder", "delete_folder") and outcome == "success":
            if ev[1] not in live_before:
                v.append(violation("deleted_or_missing_item_unavailable", self._sig(s, ev, live_before),
                                   "%s succeeded although folder %s was not live" % (list(ev), ev[1])))
        return v

    def _track(self, s, replaced=None):
        fs = s.fs
        for d in (fs.folders, fs.deleted_folders):
            for fo in d.values():
                s.tracked.setdefault(id(fo), ("folder", fo, fs))
                for dd in (fo.files, fo.deleted_files):
                    for f in dd.values():
                        s.tracked.setdefault(id(f), ("file", f, fo))

    def _invariants(self, s, ev, live_before):
        v = []
        fs = s.fs
        sig = self._sig(s, ev, live_before)
        # live folder names unique; live file names unique per folder
        names = [fo.name for fo in fs.folders.values()]
        if len(names) != len(set(names)):
            v.append(violation("live_names_unique", sig, "duplicate live folder names %r" % names))
        for fo in list(fs.folders.values()) + list(fs.deleted_folders.values()):
            fn = [f.name for f in fo.files.values()]
            if len(fn) != len(set(fn)):
                v.append(violation("live_names_unique", sig, "folder %s holds live files %r" % (fo.name, fn)))
        # partition: every object ever seen is in exactly one of live/deleted of its parent, flag agrees
        for kind, obj, parent in s.tracked.values():
            if kind == "folder":
                live = any(o is obj for o in fs.folders.values())
                dele = any(o is obj for o in fs.deleted_folders.values())
            else:
                live = any(o is obj for o in parent.files.values())
                dele = any(o is obj for o in parent.deleted_files.values())
            if live and dele:
                v.append(violation("live_xor_deleted", sig, "%s %s is in both the live and the deleted set" % (kind, obj.name)))
            elif not live and not dele:
                if kind == "file" and ev[0] in ("create_file", "move_file", "copy_file") and obj.name == ev[2]:
                    continue  # replaced / moved by this very operation
                if kind == "file" and not (any(o is parent for o in fs.folders.values())
                                           or any(o is parent for o in fs.deleted_folders.values())):
                    continue
                v.append(violation("live_xor_deleted", sig, "%s %s is in neither the live nor the deleted set" % (kind, obj.name)))
            elif live and obj.deleted and not (kind == "file" and parent.deleted):
                v.append(violation("deleted_flag_agrees", sig, "%s %s is in the live set but flagged deleted" % (kind, obj.name)))
            elif dele and not obj.deleted:
                if kind == "file" and parent.restore_countdown > 0:
                    continue
                v.append(violation("deleted_flag_agrees", sig, "%s %s is in the deleted set but not flagged deleted" % (kind, obj.name)))
        # forget objects that left both sets legitimately (replaced/moved)
        for key in [k for k, (kind, obj, parent) in s.tracked.items() if kind == "file"
                    and not any(o is obj for o in parent.files.values())
                    and not any(o is obj for o in parent.deleted_files.values())]:
            del s.tracked[key]
        # reported state lists exactly the live and the deleted items
        st = fs.describe_state()
        if sorted(st["folders"]) != sorted(names):
            v.append(violation("reported_state_exact", sig, "describe_state folders %r vs live %r" % (sorted(st["folders"]), sorted(names))))
        if set(st["deleted_folders"]) != {fo.name for fo in fs.deleted_folders.values()}:
            v.append(violation("reported_state_exact", sig, "describe_state deleted_folders %r vs %r" % (
                sorted(st["deleted_folders"]), sorted(fo.name for fo in fs.deleted_folders.values()))))
        for fo in fs.folders.values():
            fst = st["folders"].get(fo.name)
            if fst is None:
                continue
            if sorted(fst["files"]) != sorted(f.name for f in fo.files.values()):
                v.append(violation("reported_state_exact", sig, "folder %s reports files %r, holds %r" % (
                    fo.name, sorted(fst["files"]), sorted(f.name for f in fo.files.values()))))
            if set(fst["deleted_files"]) != {f.name for f in fo.deleted_files.values()}:
                v.append(violation("reported_state_exact", sig, "folder %s reports deleted files %r, holds %r" % (
                    fo.name, sorted(fst["deleted_files"]), sorted(f.name for f in fo.deleted_files.values()))))
        if st["num_file_creations"] != fs.num_file_creations or st["num_file_deletions"] != fs.num_file_deletions:
            v.append(violation("reported_state_exact", sig, "counters misreported"))
        # de-duplicate
        seen = set()
        out = []
        for x in v:
            kx = (x["clause"], x["signature"], x["detail"])
            if kx not in seen:
                seen.add(kx)
                out.append(x)
        return out

    def check_initial(self, s):
        return self._invariants(s, ("init",), {})

    # ------------------------------------------------------------------ canon
    def canon(self, s):
        fs = s.fs

        def cf(f):
            return (f.name, f.deleted, f.health_status.value, f.visible_health_status.value, f.num_access)

        def cfo(fo):
            return (fo.name, fo.deleted, fo.health_status.value, fo.visible_health_status.value,
                    max(fo.scan_countdown, -1), max(fo.restore_countdown, -1),
                    tuple(cf(f) for f in fo.files.values()), tuple(cf(f) for f in fo.deleted_files.values()),
                    tuple(sorted(map(str, fo._file_request_manager.request_types))))

        return (
            tuple(cfo(fo) for fo in fs.folders.values()),
            tuple(cfo(fo) for fo in fs.deleted_folders.values()),
            fs.num_file_creations, fs.num_file_deletions,
            tuple(sorted(map(str, fs._folder_request_manager.request_types))),
            s.pc.operating_state.value,
        )


def make_adapter(params):
    return FsAdapter(params["mode"], params["folders"], params["files"], params.get("durations", (3, 3)), params.get("init", ()),
                     params.get("power", False), params.get("flat", False))


def replay(doc):
    ad = make_adapter(doc["params"])
    s = ad.build()
    out = list(ad.check_initial(s))
    for ev in doc["history"]:
        ad.apply(s, tuple(ev))
    if doc.get("event") is not None:
        _, v = ad.apply(s, tuple(doc["event"]))
        out += v
    return out


def run(tier, is_known):
    t0 = time.time()
    if tier == "thorough":
        plan = [("req", FOLDERS, FILES, (3, 3), 5, 400000, 900), ("act", FOLDERS, FILES, (1, 0), 5, 300000, 600),
                ("api", FOLDERS, FILES, (1, 1), 5, 300000, 600), ("req", ["f1"], ["a.txt"], (0, 1), 8, 300000, 600)]
    else:
        plan = [("req", ["f1"], FILES, (1, 1), 4, 30000, 150), ("act", ["f1"], FILES, (1, 1), 4, 30000, 150),
                ("api", FOLDERS[:1] + ["f2"], FILES[:1], (1, 1), 4, 30000, 150), ("req", FOLDERS, FILES, (3, 3), 3, 30000, 150)]
    # start states other than the empty file system (a name deleted and created again; a deleted folder holding live and deleted
    # files), node power events and the flat file route
    RE = [("create_file", "f1", "a.txt", False), ("delete_file", "f1", "a.txt"), ("create_file", "f1", "a.txt", False)]
    DF = [("create_file", "f1", "a.txt", False), ("create_file", "f1", "b.txt", False), ("delete_file", "f1", "a.txt"), ("delete_folder", "f1")]
    th = tier == "thorough"
    plan = [p + ((), False, False) for p in plan]
    plan += [("req", ["f1"], FILES, (1, 1), 5 if th else 3, 100000, 300 if th else 150, RE, False, False),
             ("req", ["f1"], FILES[:1], (1, 1), 5 if th else 3, 100000, 300 if th else 150, DF, False, True),
             ("req", ["f1"], FILES[:1], (1, 1), 6 if th else 4, 100000, 300 if th else 150, (), True, True),
             ("act", ["f1"], FILES, (2, 2), 5 if th else 3, 100000, 300 if th else 150, RE, True, False)]
    viols = []
    tot = {"states": 0, "transitions": 0}
    per = []
    samples = []
    hist = {}
    outcomes = 0
    exhaustive = True
    for mode, fo, fi, dur, depth, budget, tb, init, power, flat in plan:
        ad = FsAdapter(mode, fo, fi, dur, init, power, flat)
        r = engine.bfs(ad, depth, state_budget=budget, time_budget=tb, is_known=is_known)
        viols += r.violations
        tot["states"] += r.states
        tot["transitions"] += r.transitions
        outcomes += len(r.outcomes)
        for k, n in r.hist.items():
            hist[k] = hist.get(k, 0) + n
        samples += r.samples[:1]
        exhaustive = exhaustive and (r.capped is None)
        per.append({"adapter": ad.name, "params": ad.params(), "depth_requested": depth, "depth_completed": r.max_depth_completed,
                    "states": r.states, "transitions": r.transitions, "merged_by_canon": r.merged, "pruned_after_violation": r.pruned,
                    "frontier_emptied": r.frontier_emptied, "cap": r.capped, "level_sizes": r.level_sizes,
                    "determinism_replays": r.determinism_checked})
    cov = {
        "states": tot["states"], "transitions": tot["transitions"],
        "traces_validated_against_impl": tot["transitions"],
        "samples": samples or [{"history": []}],
        "exhaustive": exhaustive,
        "explanation": "every event sequence up to the stated depth over the stated alphabet was executed on the real "
                       "FileSystem/Simulation objects (states de-duplicated by canonical form); invariants evaluated after every transition",
        "harnesses": per, "event_histogram": hist, "distinct_outcomes": outcomes,
    }
    return {
        "violations": viols, "coverage": cov, "level": "model_checking",
        "assumptions": ["alphabet: folders f1,f2 x files a.txt,b.txt; one host; depth bound as stated per harness",
                        "two deleted files of the same name are reported under one key by describe_state: not counted as a violation"],
        "summary": "states=%d transitions=%d harnesses=%d wall=%.0fs" % (tot["states"], tot["transitions"], len(per), time.time() - t0),
    }
