"""Which properties have a check, and how each is described in MANIFEST.json."""

ALL = ["C%02d" % i for i in range(1, 21)]

# id -> dict(technique, text, note, design_ref)
CHECKS = {
    "C15": dict(
        technique="explicit-state BFS over real FileSystem objects (replay-from-history), invariants on every state",
        text="Every sequence of file-system requests / agent-action requests / API calls up to the stated depth over a "
             "2-folder x 2-file alphabet (plus ticks) is executed on a real Computer's FileSystem inside a real Simulation; "
             "states are de-duplicated by a canonical form and the structural invariants (unique live names, live xor deleted, "
             "flag agreement, exact reported state, zero counters at tick start, deleted items unavailable, no exception) are "
             "evaluated after every transition.",
        note="Bounded: names {f1,f2}x{a.txt,b.txt}, depth per harness in the evidence file; CPython/pydantic trusted.",
        design_ref="DESIGN.md §4 C15",
    ),
}

NOT_BUILT_REASON = "no check registered yet in this revision (model-checking harness planned in DESIGN.md §4; not claimed until it exists)"
