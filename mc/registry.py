"""Which properties have a check, and how each is described in MANIFEST.json."""

ALL = ["C%02d" % i for i in range(1, 21)]

# id -> dict(technique, text, note, design_ref)
CHECKS = {
    "C01": dict(
        technique="explicit-state BFS (fork-expanded, canonical dedup) + deviation-bounded enumeration over real PrimaiteGymEnv.step/reset",
        text="Real PrimaiteGymEnv objects on every member of the generated scenario family GEN (routed and firewall topologies, "
             "flattened/nested, masked/unmasked, ~146-entry action maps containing every registered action type aimed at existing, "
             "missing and powered-off targets) and on the shipped scenarios (data_manipulation, UC7, UC7-TAP003, the three episode "
             "schedules): BFS over {every action index, reset(), reset(seed)} and all executions with <=k departures from a default "
             "script that crosses truncation, one step beyond it and a second episode. The step/reset contract (no exception, obs, "
             "finite reward, terminated False, truncated iff steps>=max, exactly one tick, one history item and response per agent, "
             "info lists every agent, reset => tick 0 / empty history / zero reward / new game) is evaluated on every transition."
             " Also: default scripts that open remote/local sessions (on a server and on the gateway device) and idle past the 30-step time-out, the insider scenario's first steps with every interfering blue action, a power cycle of the threat actor's host at every step, and one whole kill chain after the database client was removed.",
        note="Seeded RNG streams (one stream per history); bounds (depth, horizon, k) per harness in the evidence file.",
        design_ref="DESIGN.md §4 C01",
    ),
    "C02": dict(
        technique="C01 exploration with space-membership oracle + exhaustive single-leaf product over real describe_state dictionaries",
        text="The C01 exploration re-run with observation_space.contains(obs) (nested and flattened) after every reset/step and "
             "constancy of observation/action space across episodes; plus, at component level, every source leaf of a real "
             "describe_state() (every enum value read from the simulator at run time, every count 0..12 and 100, traffic/load from 0 "
             "to 10x nominal, ACL rules with listed/unlisted fields, sessions 0..9, component absent) crossed with every power state of "
             "the owning node, observe() checked against the declared space."
             " GEN includes per-host option overrides, duplicated list entries, explicit router port lists, empty traffic mappings; a depth-2/3 BFS drives the file-system bookkeeping behind the counted leaves (delete/restore through actions and terminal commands).",
        note="Component level drives one leaf at a time (plus owner power state), not all pairs.",
        design_ref="DESIGN.md §4 C02",
    ),
    "C08": dict(
        technique="exhaustive product of route tables x destinations on real RouteTable objects vs reference longest-prefix match; explicit-state BFS over 11 real topologies with reachability reference model, addressee/TTL/termination monitors; scripted ICMP identifiers",
        text="Every route table of up to 3 (thorough 4) routes over nested prefixes x metrics x insertion orders x default-route variants "
             "is queried for 18 boundary destinations and compared with an integer LPM reference (lowest metric on ties, default last). "
             "BFS over a switched LAN, chains of 1-3 routers with static and default routes (/24 and /30 links, decoy routes), a firewall "
             "chain, two routers sharing a switch, a wireless pair, a default-route loop and a host-as-next-hop table: pings between all "
             "ordered host pairs, to router, unused and foreign addresses, DNS look-ups, interface/port/power toggles and ticks from cold "
             "ARP caches. Oracles: every exchange succeeds iff an independent reachability model (power, interfaces, links, routes, ACLs, "
             "both directions) says so; a unicast payload reaches software only on the owner of its destination address; every hop lowers "
             "TTL and exhausted TTL is dropped; every event terminates (frame-nesting and transmission budget); ICMP identifier answers "
             "{0,1,65535}^2 scripted.",
        note="DNS over TCP is the service exchange; alternative-path (triangle) topologies are not covered.",
        design_ref="DESIGN.md §4 C08",
    ),
    "C09": dict(
        technique="C01 exploration (BFS + deviation-bounded) with an independent observation decoder compared leaf by leaf",
        text="On GEN members (scan-gated and true health, NMNE, monitored traffic, file-access counts, sessions, routed and firewall) and "
             "the shipped data_manipulation scenario, after every explored reset/step every leaf of the blue observation is recomputed "
             "from the observation configuration and the LIVE simulator objects (hostnames, software names, folder/file names, ACL slots, "
             "link endpoints; never describe_state) with the documented encoding and compared: enum values, visible vs true health per "
             "requires_scan, threshold bins, zero/default for absent components and everything under a node that is not ON, NMNE as "
             "per-observation increase, ACL id maps, link/traffic bins."
             " GEN includes per-host scan-flag overrides and explicit router port lists; a BFS crosses sessions on the gateway device with its power states.",
        note="Encoding conventions listed in the evidence file's assumptions (incl. FTP services reporting STOPPED unless active this step).",
        design_ref="DESIGN.md §4 C09",
    ),
    "C10": dict(
        technique="exhaustive product of reward-sharing digraphs built into real PrimaiteGame objects vs reference evaluation; deviation-bounded/BFS exploration of real env with a lock-step reward reference model",
        text="Every labelled sharing digraph (self-loops included) on up to 3 agents (thorough: all 4096 loop-free digraphs on 4 agents too) "
             "is built by the real PrimaiteGame.from_config: cyclic <=> rejected at load; acyclic graphs are stepped 4 times with action "
             "scripts that change every agent's own component each step, rewards compared with a recursive reference on same-step values, "
             "evaluation order checked dependencies-first, totals checked. On GEN members carrying every shipped component (sticky and "
             "non-sticky, several weights, blue sharing green) and on data_manipulation, after every explored step each component is "
             "recomputed by a reference model from live objects and the agent's own last action/response: current = sum(w*c), total = sum, "
             "env reward = blue's reward, history reward = step reward."
             " GEN rewards include components watching another node than the agent's actions address, an option-less weighted component, and a use/remove/re-install script for the watched application.",
        note="Reference component semantics follow rewards.py docstrings; sticky memory is modelled in lock-step.",
        design_ref="DESIGN.md §4 C10",
    ),
    "C11": dict(
        technique="explicit-state BFS + deviation-bounded enumeration over real PrimaiteGymEnv with masking; whole mask vector vs independent request-tree walk; monitor on RequestManager.__call__",
        text="On GEN members with action masking and node durations 0/1/2 (so SHUTTING_DOWN/BOOTING, restarting services and installing "
             "applications are reached), after every explored step/reset every entry of the action mask is compared with an independent "
             "walk of the live request tree that evaluates every validator along the action's path (missing key => 0); for the executed "
             "action a class-level monitor on RequestManager.__call__ records where the request was turned away: masked-out => never "
             "reaches a handler / never success, allowed => not refused by a permission rule."
             " Also: default scripts that start with a timed operation (restart, install, shutdown, fix, reset, delete+restore) with one deviation in every later step; the verdict must not change between the mask and the moment the agents act; one game with two masked agents whose action maps differ, joint actions to depth 2 (3).",
        note="Validators are assumed pure (evaluated an extra time by walker and monitor).",
        design_ref="DESIGN.md §4 C11",
    ),
    "C12": dict(
        technique="explicit-state BFS over real node + peer networks for six node types x {0,1,2}^2 durations; lock-step reference power FSM; class-level frame monitors",
        text="For computer, server, switch, router, firewall and wireless router, each with peers on real links, and every "
             "(start_up, shut_down) duration pair in {0,1,2}^2 (first event of every history), BFS over shutdown/startup/reset requests, "
             "ticks, pings to/from/through the node, a software request, interface toggle requests, ACL requests and hand-built frames "
             "injected at the node's interface. A reference power state machine (timing convention of base_hardware.rst) is stepped in "
             "lock-step; in every state: not ON => interfaces disabled, nothing emitted or processed (monitors on send_frame/receive_frame/"
             "session manager), every request but start-up refused, pings fail; OFF => no software running; back ON => interfaces and "
             "previously running software up. Thorough empties the frontier for every type (whole reachable space of the menu)."
             " Events include direct NetworkInterface.enable() calls on every interface of the node under test.",
        note="Requests/ticks/frames only; direct Python-API calls of power_on/power_off/reset are outside the property's quantifier (optional VERIF_C12_API=1).",
        design_ref="DESIGN.md §4 C12",
    ),
    "C13": dict(
        technique="explicit-state BFS per shipped service/application class (21 classes, enumerated from the registries at run time) on a real host + peer; lock-step lifecycle reference models; receive/send monitors; registry agreement invariants",
        text="One harness per class in Service._registry and Application._registry (plus listener, running-at-start and shared-port pair "
             "variants): BFS over start/stop/pause/resume/restart/disable/enable/fix/scan (services), execute/close/fix/scan/install/"
             "uninstall (applications), ticks, node shutdown/startup and a real frame from the peer addressed to the software's port with "
             "a payload it understands. A reference state machine written from action_masking.rst/software.rst is stepped in lock-step "
             "(acceptance exactly in documented source states, restart on tick duration+1, install on tick duration, power effects); "
             "not running => no open port, receive() neither handles nor changes the instance nor emits a frame; after every event "
             "software_manager.software, node.services/applications, request routes, describe_state keys and port_protocol_mapping agree."
             " Searches also start from non-initial states: a service restarted once, and a restart cut short by disable/enable/start.",
        note="Restart/installation timing conventions per DESIGN.md §2; execute/fix statuses are not judged.",
        design_ref="DESIGN.md §4 C13",
    ),
    "C14": dict(
        technique="explicit-state BFS over health/scan/fix/restore/power events on real hosts for all duration combinations; shadow timers and shadow (true, visible) records per item",
        text="A real host with a service, an application, a folder with two files and all pre-installed software (plus a database server "
             "with backup server for the fix-time restore), for every combination of fixing durations {1,2}, folder scan/restore "
             "durations {0,1,3} and node scan durations {1,2}: BFS over compromise, corrupt (file/folder), fix, scan (software, file, "
             "folder), node os-scan, repair, restore, delete, ticks and node power. A shadow record per item, never reading the "
             "implementation's countdown fields: visible health changes only in a transition that completes a scan covering the item and "
             "then equals the true health; true health changes only by an explicit event on the item or its timed completion; fix, folder "
             "scan, folder restore and node scan are due exactly on their configured step; the real Service/Application/File/Folder "
             "observation classes with requires_scan show the same."
             " A second adapter checks fix timing for EVERY class of the run-time registries under every lifecycle request, attack and node power event; searches also start with operations under way (node scan inside a folder scan's window, fixes one step in).",
        note="Duration 0 is accepted as instant or first step; a repeated os-scan request may join or restart the scan (the statement is silent); timers count steps with the node ON.",
        design_ref="DESIGN.md §4 C14",
    ),
    "C15": dict(
        technique="explicit-state BFS over real FileSystem objects (replay-from-history), invariants on every state",
        text="Every sequence of file-system requests / agent-action requests / API calls up to the stated depth over a "
             "2-folder x 2-file alphabet (plus ticks) is executed on a real Computer's FileSystem inside a real Simulation; "
             "states are de-duplicated by a canonical form and the structural invariants (unique live names, live xor deleted, "
             "flag agreement, exact reported state, zero counters at tick start, deleted items unavailable, no exception) are "
             "evaluated after every transition."
             " Searches also start from non-initial states (a name deleted and created again; a deleted folder holding live and deleted files) and include node power events and the flat file/<name>/<verb> route.",
        note="Bounded: names {f1,f2}x{a.txt,b.txt}, depth per harness in the evidence file; CPython/pydantic trusted.",
        design_ref="DESIGN.md §4 C15",
    ),
    "C03": dict(
        technique="world enumeration: every program executed in every member of a finite product of process-level answers (PYTHONHASHSEED in separate interpreters x uuid stream x MAC/ICMP-id stream x clock x logging); trajectory digests compared",
        text="Programs (generated scenario with every stochastic agent type and network-wide nmap scans, data_manipulation, UC7/TAP001, "
             "UC7/TAP003; several seeds; do-nothing and single-deviation action scripts; two seeded episodes each) are executed in separate "
             "interpreter processes started with PYTHONHASHSEED 0..2 (thorough 0..7), and inside each in 6 pairwise-covering (thorough: all "
             "16) combinations of identifier streams (uuid, MAC, 1-digit vs 5-digit ICMP ids), clocks (ticking / frozen at microsecond 0) "
             "and logging (off / sys+pcap+agent logs at DEBUG). Per-step digests of nested observation, reward and every agent's action, "
             "parameters, request, response status and data (ids normalised, dict order ignored, list order kept) must be identical in "
             "all worlds, and reset(seed) must reproduce the first episode."
             " Programs also cover a GEN member with duplicated observation-list entries, and episode schedules (generated with a router, shipped) gone through more than twice: episode e+n must repeat episode e.",
        note="A finite set of hash seeds and streams, not all of them; torch's RNG is not involved (the environment uses it for nothing).",
        design_ref="DESIGN.md §4 C03",
    ),
    "C04": dict(
        technique="exhaustive enumeration of dirty histories with differential comparison against a fresh environment; enumeration of ALL order-preserving interleavings of two environment instances' programs; object-graph disjointness",
        text="Episode isolation: for every dirty history (all sequences up to length 2, thorough 3 with ticks/resets in between) over a "
             "24-action dirtying alphabet touching every subsystem, [new env; history; reset(seed); probe] must equal [new env; reset(seed); "
             "probe] step for step in nested observation, reward, truncation and every agent's action/parameters/response, and no "
             "simulation component, agent or manager reachable from the new game may be reachable from the old one. Instance isolation: "
             "programs A=[new,reset,step*n] and B=[new,reset,step*m,close] under ALL order-preserving interleavings for pairs of equal, "
             "differently configured (NMNE off, other topology/flags) and stochastic scenarios; A must behave as when run alone. Episode "
             "schedules: a scheduled episode after dirty earlier episodes equals the same episode after clean ones."
             " Every digest includes the action mask; masks are additionally compared with an independent walk of the same instance's request tree (a reference a process-wide cache cannot spoil); a whole insider-scenario episode followed by reset is compared with a fresh environment for 45 steps.",
        note="'Newly constructed' = fresh environment object brought to the episode by reset(seed). Two design-level defects are recorded as known findings (class-level NMNE configuration, process-wide RNGs).",
        design_ref="DESIGN.md §4 C04",
    ),
    "C05": dict(
        technique="explicit-state BFS over a real 7-node Simulation; at every state exhaustive enumeration of live request paths x single-element mutations, executed against the real request tree with full-state comparison; action requests in forked snapshots",
        text="BFS over tree-changing events (install/uninstall, create/delete, power, service stop/disable, NIC disable, ticks) on the "
             "real Simulation of a GEN member. At every explored state all ~900 paths of the live request tree and all ~9,700 "
             "single-element mutations (element deleted or misspelt at each depth) are classified by an independent walker; every "
             "request classified missing/refused is executed: answer must be unreachable / failure-with-reason, never success, never "
             "an exception, and deep canonical state + describe_state must be unchanged. Every registered action type aimed at "
             "existing components is executed in a forked snapshot: never unreachable, never raises, documented status."
             " Tree-changing events include Python-API install/uninstall/delete/restore and scenarios with nodes declared OFF; parameter-addressed file-system requests on deleted/missing targets must not succeed; no request manager reachable in the live tree may belong to a removed component.",
        note="Requests whose parameters (not path keys) are missing are classed malformed and not executed; handler-reaching raw paths are executed only when formed by an action class.",
        design_ref="DESIGN.md §4 C05",
    ),
    "C06": dict(
        technique="exhaustive product of (topology x block mechanism x placement x cold/warm) configurations, each explored as the complete tree of attack sequences in forked snapshots; differential victim state vs idle run; per-frame deny monitor",
        text="Switched, routed and firewall (external/internal/DMZ, every ordered zone pair) networks with an attacker carrying every red "
             "application (data-manipulation-bot, ransomware-script, dos-bot, C2 beacon/server, nmap, database client, FTP, terminal, "
             "browser) and a victim carrying database, FTP, web, terminal, users and files. Every blocking mechanism (deny rule shapes "
             "any-any / exact src / exact dst / wildcard / implicit deny on each list on the path; interface or port disabled at either "
             "end or on the device; link absent or removed; victim or device powered off) applied cold or after a warm-up with ARP, "
             "database, terminal and C2 sessions established; then every attack sequence up to depth 2 (thorough 3) over 15 events. "
             "Oracle 1: the victim's deep state (all software fields, sessions, connections, ARP, files, NIC counters, NMNE) equals the "
             "idle reference after every event and after settling. Oracle 2: a class-level monitor checks that a frame denied by a "
             "router/firewall list is never sent on, never handed to its session manager/software, and teaches the node nothing.",
        note="The attacker acts through requests on its own node; one block mechanism at a time; ARP is exempt from router ACLs by the code's convention.",
        design_ref="DESIGN.md §4 C06",
    ),
    "C07": dict(
        technique="exhaustive product (rule configurations x packets) on real AccessControlList vs reference; BFS over add/remove via API, request tree, action classes",
        text="Every single rule of a 3456-rule field product and every ordered pair (thorough: triple) of a 12-rule covering set at every "
             "assignment to the first/second/last slot, under both implicit actions, is evaluated against all 81 packets of a covering set on "
             "real AccessControlList objects; verdict, deciding slot and all hit counters are compared with an independent integer-arithmetic "
             "reference. Add/remove sequences are explored by BFS through the Python API, the request tree of a real Router and the ACL action "
             "classes against a reference slot list; Router.from_config placement is compared too."
             " Rules include non-contiguous wildcard masks; a witness list's counters must stay untouched by other lists' verdicts; operation BFS also starts from a list that already holds rules and has judged packets.",
        note="Covering set of addresses/ports, not all 2^32; port 0 (PORT_LOOKUP NONE) is read as 'unspecified'.",
        design_ref="DESIGN.md §4 C07",
    ),
    "C16": dict(
        technique="explicit-state BFS over two clients + server with session limit 2 and time-outs 2-3; lock-step reference session model with symbolic connection handles",
        text="Clients C, C2 and server S on a real LAN; S's user-session-manager with max_remote_sessions 2 and short time-outs; accounts "
             "admin, u2, a2. BFS over add/disable/enable user, change password (right/wrong current), local login/logout/command, remote "
             "login through the terminal and through the user-session-manager request (right/wrong password, disabled user), remote command "
             "on the k-th held connection creating a fresh marker file on S, remote logoff, ticks past the time-out, terminal stop/start "
             "and power cycles on either end. A reference model of accounts and live sessions (last-active step, limit, time-out) is "
             "stepped in lock-step: logins succeed only with the current password of an existing enabled account on an ON node below the "
             "limit; a marker file appears only for a command on a session the model holds live; logout, time-out and password change "
             "end the session; the last enabled admin is never disabled; describe_state session fields agree with the model; time-out "
             "processing never raises."
             " Includes harnesses whose local and remote time-outs differ.",
        note="Only the 'only' directions of the statement are judged. Sessions surviving a terminal restart / instantaneous reboot follow the code (the statement names logout, time-out and password change as session enders).",
        design_ref="DESIGN.md §4 C16",
    ),
    "C17": dict(
        technique="explicit-state BFS over real clients + database server + backup server (switched and routed); lock-step reference database model with symbolic connection handles",
        text="Two clients, a password-protected database service with max_sessions 1/2, its FTP client and a backup FTP server on real "
             "networks; BFS over connect (right/wrong/no password), application execute, SELECT/INSERT/DELETE/ENCRYPT/garbage on the k-th "
             "issued, a closed and a forged connection id, disconnect, client uninstall, service stop/start/pause/resume/restart/fix, "
             "backup, restore, file repair, node power, NIC/ACL path blocks and ticks. A reference model of issued handles, file health "
             "and backup health is stepped in lock-step: a connection opens only for the right password on a RUNNING service on an ON "
             "node below capacity with the path open; queries run only on issued, unclosed connections; DELETE => COMPROMISED, ENCRYPT => "
             "CORRUPT; SELECT of compromised data fails; restore of a healthy backup => GOOD; blocked/stopped/off => nothing succeeds and "
             "server state is unchanged; server-side connections and file health equal the model after every transition."
             " Includes a session limit of 0.",
        note="Only the 'only if' directions of the statement are judged (a refused permitted connect is not a violation).",
        design_ref="DESIGN.md §4 C17",
    ),
    "C18": dict(
        technique="explicit-state BFS over real networks with tight link bandwidths; monitor on Link/AirSpace admission and transmit; accounting invariants on every transmission and state",
        text="Switched, routed and wireless topologies built through the Python API with link bandwidth / channel capacity of 1, 1.5, 2.5, "
             "10 frames and the shipped default (first event of every history); BFS over pings (warm and cold/ARP flood), nested "
             "database request/reply, FTP bulk put, DoS burst, interface toggles and ticks, plus fixed long scripted histories as vacuity "
             "witnesses. A monitor on Link.can_transmit_frame/transmit_frame/endpoint_down and AirSpace checks after every transmission "
             "and at every state: load <= capacity, both ends enabled at transmission, per-tick carried total <= capacity, loads zero after "
             "pre_timestep, describe_state loads equal the real ones."
             " Bandwidth factors include less than one frame (0.5) and, for the wireless channel, 0.",
        note="Seams fix frame sizes (counter-based secrets, fixed clock). 'Carried' = frames the receiving interface accepted or all frames put on an up link (both conventions accepted).",
        design_ref="DESIGN.md §4 C18",
    ),
    "C19": dict(
        technique="choice-point seam on every RNG draw of the scripted agents: complete RNG-tree enumeration per setting combination (periodic agents), sampler seam (probabilistic agent), deviation-bounded enumeration on real UC7 environments (threat actors)",
        text="Every random draw of a scripted agent (random.randint/choice in the agent modules, science.random, the probabilistic agent's "
             "generator) is answered by the harness and all answers are enumerated, so results hold for every seed. Periodic agents "
             "(periodic-agent, red-database-corrupting-agent): product of start step/variance, frequency/variance, max executions and "
             "start-node lists x the complete choice tree over a 10-12 step horizon on a real PrimaiteGame (thorough: x one blue "
             "interference): first action inside the start window, gaps within frequency +- variance, at most max executions, one "
             "configured start node, only the configured action. Probabilistic agent: probability vector handed to the sampler is "
             "index-aligned with the action map for every key order; the action is the sampled index's entry. TAP001/TAP003 on the "
             "shipped UC7 scenarios with probabilities 0.5, variance 1 and both repeat settings: all executions with <=k non-default RNG "
             "answers / blue interference actions; kill-chain stage sampled after every step must move in order without skipping, fail "
             "only when stage repetition is off, restart only when repeat_kill_chain is set, and respect start and minimum gap."
             " Threat-actor runs include a retry harness (failed stages repeated), a second kill-chain pass, and the clause that host actions are issued only from the configured start nodes.",
        note="numpy never returning a p=0 index is trusted; threat-actor upper gap bounds are not checked.",
        design_ref="DESIGN.md §4 C19",
    ),
    "C20": dict(
        technique="complete enumeration of shipped scenarios (every schedule episode) and the generated family: independent inventory from the dict vs built object graph; trajectory digests of key-permuted / re-serialised copies on real environments",
        text="For each of 42 scenarios (7 shipped files, every episode of the 3 schedule directories, GEN and variants with extra "
             "interfaces, static/default routes, users, initial OFF state, listen ports, permuted probability tables) the game is built by "
             "the real PrimaiteGame.from_config and ~800 fields per scenario are compared with an inventory derived from the dictionary: "
             "nodes/types/initial state/durations, interfaces and addresses, gateway/DNS, links and bandwidths, routes, every ACL slot of "
             "every list, exactly one instance per configured software with its options and listen ports, users, folders/files, agents "
             "(action maps, reward components, settings, probability vector alignment), airspace capacities - also for the same file with "
             "every mapping in reverse key order. The seeded 8-step trajectory of YAML-re-serialised, all-reversed and all-sorted copies "
             "must equal the original's (a differing mapping is localised by reversing one mapping at a time)."
             " Variants: default route only / routes only (router and firewall), top-level defaults section (0 and non-zero), office-LAN node sets (one and two edge switches, non-default bandwidth), reversed software order with per-item options, shared option mappings, duplicate routes.",
        note="The order oracle compares nested observations, rewards and agent actions; the position of entries inside the flattened vector (follows the written order of e.g. monitored_traffic) is not compared.",
        design_ref="DESIGN.md §4 C20",
    ),
}

NOT_BUILT_REASON = "no check registered yet in this revision (model-checking harness planned in DESIGN.md §4; not claimed until it exists)"
