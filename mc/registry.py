"""Which properties have a check, and how each is described in MANIFEST.json."""

ALL = ["C%02d" % i for i in range(1, 21)]

# id -> dict(technique, text, note, design_ref)
CHECKS = {
    "C15": dict(
        technique="explicit-state BFS over real FileSystem objects (replay-from-history), invariants on every state",
        text="Every sequence of file-system requests / agent-action requests / API calls up to the stated depth over a "
             "2-folder x 2-file alphabet (plus ticks) is executed on a real Computer's FileSystem inside a real Simulation; "
             "states are de-duplicated by a canonical form and the structural invariants (unique live names, live xor deleted, "
             "flag agreement, exact reported state, zero counters at tick start, deleted items unavailable, no exception) are "
             "evaluated after every transition.",
        note="Bounded: names {f1,f2}x{a.txt,b.txt}, depth per harness in the evidence file; CPython/pydantic trusted.",
        design_ref="DESIGN.md §4 C15",
    ),
    "C07": dict(
        technique="exhaustive product (rule configurations x packets) on real AccessControlList vs reference; BFS over add/remove via API, request tree, action classes",
        text="Every single rule of a 3456-rule field product and every ordered pair (thorough: triple) of a 12-rule covering set at every "
             "assignment to the first/second/last slot, under both implicit actions, is evaluated against all 81 packets of a covering set on "
             "real AccessControlList objects; verdict, deciding slot and all hit counters are compared with an independent integer-arithmetic "
             "reference. Add/remove sequences are explored by BFS through the Python API, the request tree of a real Router and the ACL action "
             "classes against a reference slot list; Router.from_config placement is compared too.",
        note="Covering set of addresses/ports, not all 2^32; port 0 (PORT_LOOKUP NONE) is read as 'unspecified'.",
        design_ref="DESIGN.md §4 C07",
    ),
}

NOT_BUILT_REASON = "no check registered yet in this revision (model-checking harness planned in DESIGN.md §4; not claimed until it exists)"
