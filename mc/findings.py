"""Known findings: genuine defects recorded rather than repaired (committed file, never written at run time)."""
import json
import os

from . import common

PATH = os.path.join(common.VERIF_DIR, "known_findings.json")


def load():
    if not os.path.exists(PATH):
        return {"findings": [], "fixed": []}
    return json.load(open(PATH))


def matcher(prop: str):
    fs = [f for f in load().get("findings", []) if f["property"] == prop]

    def is_known(v) -> bool:
        for f in fs:
            if f["clause"] == v["clause"] and f["signature"] == v["signature"]:
                return True
        return False

    return is_known, fs
