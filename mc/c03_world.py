"""Worker for C03: runs programs (scenario, seed, action script) in several in-process worlds inside ONE interpreter whose
PYTHONHASHSEED was fixed by the parent, and prints the per-step digests as JSON.

usage: python -m mc.c03_world   (job description as JSON on stdin)
"""
from __future__ import annotations

import copy
import json
import os
import shutil
import sys
import tempfile

from . import common, harness_env as HE, seams, envexplore as EE


def norm_ids_keep_lists(x):
    """Plain python with dict keys sorted (key order is not behaviour) and LIST ORDER KEPT; opaque ids normalised later."""
    return HE.to_plain(x)


def step_record(env, result):
    obs, rew, term, trunc, info = result
    agents = {}
    for name, h in info["agent_actions"].items():
        agents[name] = [h.action, HE.to_plain(h.parameters), HE.to_plain(h.request), h.response.status, HE.to_plain(h.response.data)]
    rec = {"obs": HE.to_plain(env.agent.observation_manager.current_observation), "reward": round(float(rew), 9),
           "truncated": bool(trunc), "agents": agents}
    return rec


def digest(rec):
    return HE.sha(EE.normalise_ids(json.dumps(rec, sort_keys=True, default=str)))


def run_program(prog, world, tmpdir):
    Env = HE.import_env()
    seams.reset(uuid_base=world["uuid_base"], bits_mode=world["bits_mode"], clock_mode=world["clock_mode"])
    cfg = load(prog["scenario"])
    if not isinstance(cfg, str):
        io = cfg.setdefault("io_settings", {})
        on = bool(world["logging"])
        io.update({"save_agent_actions": on, "save_step_metadata": False, "save_pcap_logs": on, "save_sys_logs": on,
                   "save_agent_logs": on, "sys_log_level": "DEBUG" if on else "WARNING", "agent_log_level": "DEBUG" if on else "WARNING"})
    env = Env(cfg)
    out = []
    recs = []
    for episode in range(prog.get("episodes", 2)):
        env.reset(seed=prog["seed"])
        o = HE.to_plain(env.agent.observation_manager.current_observation)
        out.append(HE.sha(EE.normalise_ids(json.dumps(o, sort_keys=True, default=str))))
        recs.append({"obs": o})
        n = len(env.agent.action_manager.action_map)
        for t in range(prog["steps"]):
            a = dict(map(tuple, prog["script"])).get(t, 0) % n
            r = env.step(a)
            rec = step_record(env, r)
            out.append(digest(rec))
            recs.append(rec)
    try:
        env.close()
    except Exception:  # noqa
        pass
    return out, recs


_CFG = {}
_TMP = {"dir": "/var/tmp"}


def load(scenario):
    if scenario == "sched-gen":
        # a generated two-episode schedule directory whose scenario has a router (the small shipped schedules have none)
        return HE.make_schedule_dir(os.path.join(_TMP["dir"], "sched-gen-%d" % os.getpid()), episodes=2)
    if scenario in HE.SHIPPED:
        p = HE.SHIPPED[scenario]
        if os.path.isdir(p):
            return p
        return copy.deepcopy(_CFG.setdefault(scenario, HE.load_yaml(p)))
    for v in HE.GEN:
        if v["name"] == scenario:
            return HE.gen_scenario(dict(v, ep_len=64))
        if scenario.startswith(v["name"] + "+seed="):
            # the scenario file itself configures the seed that reset() is later called with
            return HE.gen_scenario(dict(v, ep_len=64, seed=int(scenario.split("=")[1])))
    raise KeyError(scenario)


def main():
    job = json.load(sys.stdin)
    HE.import_env()
    tmp = tempfile.mkdtemp(prefix="c03-", dir="/var/tmp")
    _TMP["dir"] = tmp
    try:
        # session output (only written in the logging-on worlds) goes to a scratch directory
        from primaite.session.io import PrimaiteIO
        from pathlib import Path

        def gen(self, timestamp=None, tmp=tmp):
            p = Path(tmp) / "session"
            p.mkdir(exist_ok=True, parents=True)
            return p

        PrimaiteIO.generate_session_path = gen
        res = []
        for prog in job["programs"]:
            for wi, world in enumerate(job["worlds"]):
                d, recs = run_program(prog, world, tmp)
                res.append({"program": prog, "world": world, "digests": d, "records": recs if job.get("keep_records") else None})
        json.dump({"hashseed": os.environ.get("PYTHONHASHSEED"), "results": res}, sys.stdout, default=str)
    finally:
        shutil.rmtree(tmp, ignore_errors=True)


if __name__ == "__main__":
    main()
