"""Bounded exhaustive exploration of the real PrimAITE objects (see /verif/DESIGN.md)."""
